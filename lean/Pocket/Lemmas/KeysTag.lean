import Pocket.Lemmas.Keys
/- The three tag tables at the level of byte keys.  Unlike the time / author / author-kind tables, a tag
table holds SEVERAL rows per event - one per distinct `(letter, padded value)` - so a range read is a
read over rows.  Proved here: a range read with the bounds `*_iter` computes returns exactly the model's
scan (`tcScan`, `atcScan`, `ktcScan`): the events having SOME tag whose name is the letter and whose value
pads (or is cut) to the same 182 bytes, within the time window, newest first, then ascending id - each
event once, however many of its tags fall on that key. -/
namespace Pocket

/-! ### `eraseDups` has no duplicates -/

theorem nodup_eraseDups {α : Type} [BEq α] [LawfulBEq α] : ∀ (n : Nat) (l : List α), l.length ≤ n → l.eraseDups.Nodup := by
  intro n
  induction n with
  | zero =>
    intro l h
    have : l = [] := List.eq_nil_of_length_eq_zero (by omega)
    subst this; simp
  | succ n ih =>
    intro l h
    cases l with
    | nil => simp
    | cons a as =>
      rw [List.eraseDups_cons, List.nodup_cons]
      constructor
      · rw [List.mem_eraseDups, List.mem_filter]
        simp
      · apply ih
        have := List.length_filter_le (fun b => !b == a) as
        simp only [List.length_cons] at h
        omega

theorem filter_beq_nodup {α : Type} [BEq α] [LawfulBEq α] (a : α) : ∀ (l : List α), l.Nodup →
    l.filter (fun b => b == a) = if a ∈ l then [a] else [] := by
  intro l
  induction l with
  | nil => simp
  | cons x xs ih =>
    intro h
    rw [List.nodup_cons] at h
    by_cases hx : x = a
    · subst hx
      have : xs.filter (fun b => b == x) = [] := by
        rw [ih h.2]; simp [h.1]
      simp [this]
    · have hne : (x == a) = false := by simpa using hx
      rw [List.filter_cons, hne, ih h.2]
      have : (a ∈ x :: xs) ↔ a ∈ xs := by
        simp only [List.mem_cons]
        constructor
        · rintro (h' | h')
          · exact absurd h'.symm hx
          · exact h'
        · exact Or.inr
      by_cases hm : a ∈ xs
      · simp [hm]
      · simp [hm]; exact fun h' => hx h'.symm

/-! ### rows -/

/-- insertion sort of `(key, event)` rows by bytewise key order -/
def insertRow (r : Bytes × SEv) : List (Bytes × SEv) → List (Bytes × SEv)
  | [] => [r]
  | y :: ys => if bytesLt r.1 y.1 then r :: y :: ys else y :: insertRow r ys

def sortRows (l : List (Bytes × SEv)) : List (Bytes × SEv) := l.foldr insertRow []

/-- what a range read of a table of rows returns: the events of the rows whose key lies within the
bounds, in bytewise key order -/
def rowScan (rows : List (Bytes × SEv)) (lo hi : Bytes) : List SEv :=
  (sortRows (rows.filter fun r => inRange lo hi r.1)).map (·.2)

/-- the rows of a tag table: for every live event, one row per distinct `(letter, padded value)`;
`pre` is what precedes the letter in the key (nothing, the author, or the kind) -/
def tagRows (live : List SEv) (pre : EventRec → Bytes) : List (Bytes × SEv) :=
  live.flatMap fun x => (tagKeys x.e).map fun lp => ((pre x.e ++ lp.1 :: lp.2) ++ (revTime x.e.createdAt ++ x.e.id), x)

theorem insertRow_map (k : SEv → Bytes) (x : SEv) (l : List SEv) :
    insertRow (k x, x) (l.map fun y => (k y, y)) = (insertBy (fun a b => bytesLt (k a) (k b)) x l).map fun y => (k y, y) := by
  induction l with
  | nil => rfl
  | cons y ys ih =>
    simp only [List.map_cons, insertRow, insertBy]
    split
    · simp
    · simp [ih]

theorem sortRows_map (k : SEv → Bytes) (l : List SEv) :
    sortRows (l.map fun y => (k y, y)) = (sortBy (fun a b => bytesLt (k a) (k b)) l).map fun y => (k y, y) := by
  induction l with
  | nil => rfl
  | cons x xs ih =>
    have e1 : sortRows ((x :: xs).map fun y => (k y, y)) = insertRow (k x, x) (sortRows (xs.map fun y => (k y, y))) := rfl
    have e2 : sortBy (fun a b => bytesLt (k a) (k b)) (x :: xs) = insertBy (fun a b => bytesLt (k a) (k b)) x (sortBy (fun a b => bytesLt (k a) (k b)) xs) := rfl
    rw [e1, e2, ih, insertRow_map]

theorem flatMap_ite {α β : Type} (p : α → Bool) (g : α → β) (l : List α) :
    (l.flatMap fun x => if p x then [g x] else []) = (l.filter p).map g := by
  induction l with
  | nil => rfl
  | cons x xs ih =>
    rw [List.flatMap_cons, ih, List.filter_cons]
    by_cases h : p x <;> simp [h]

theorem flatMap_congr' {α β : Type} (f g : α → List β) (l : List α) (h : ∀ x ∈ l, f x = g x) : l.flatMap f = l.flatMap g := by
  induction l with
  | nil => rfl
  | cons x xs ih =>
    rw [List.flatMap_cons, List.flatMap_cons, h x (by simp), ih (fun y hy => h y (by simp [hy]))]

theorem pad182_length (v : Bytes) : (pad182 v).length = 182 := by
  unfold pad182; split <;> simp <;> omega

theorem pad182_idem (v : Bytes) : pad182 (pad182 v) = pad182 v := by
  have h := pad182_length v
  generalize pad182 v = w at h
  unfold pad182
  simp [h]

theorem mem_tagKeys (e : EventRec) (l : Nat) (pv : Bytes) :
    (l, pv) ∈ tagKeys e ↔ ∃ t ∈ e.tags, ∃ v rest, t = [l] :: v :: rest ∧ pv = pad182 v := by
  unfold tagKeys
  rw [List.mem_eraseDups, List.mem_filterMap]
  constructor
  · rintro ⟨t, ht, h⟩
    refine ⟨t, ht, ?_⟩
    split at h
    · rename_i l' v rest
      simp only [Option.some.injEq, Prod.mk.injEq] at h
      exact ⟨v, rest, by rw [h.1], h.2.symm⟩
    · cases h
  · rintro ⟨t, ht, v, rest, rfl, rfl⟩
    exact ⟨_, ht, rfl⟩

theorem tagKeys_nodup (e : EventRec) : (tagKeys e).Nodup := by
  unfold tagKeys
  exact nodup_eraseDups _ _ (Nat.le_refl _)

theorem tagKeys_padded (e : EventRec) (lp : Nat × Bytes) (h : lp ∈ tagKeys e) : pad182 lp.2 = lp.2 := by
  obtain ⟨l, pv⟩ := lp
  obtain ⟨_, _, v, _, _, rfl⟩ := (mem_tagKeys e l pv).1 h
  exact pad182_idem v

theorem hasTagKey_iff (e : EventRec) (letter : Nat) (value : Bytes) :
    hasTagKey e letter value = true ↔ (letter, pad182 value) ∈ tagKeys e := by
  rw [mem_tagKeys]
  unfold hasTagKey
  rw [List.any_eq_true]
  constructor
  · rintro ⟨t, ht, h⟩
    refine ⟨t, ht, ?_⟩
    split at h
    · rename_i name v rest
      simp only [Bool.and_eq_true, beq_iff_eq] at h
      exact ⟨v, rest, by rw [h.1], h.2.symm⟩
    · cases h
  · rintro ⟨t, ht, v, rest, rfl, h⟩
    exact ⟨_, ht, by simp [h]⟩

/-- **the general statement for a tag table**: if the bounds select, among keys of this shape, exactly
the prefix `(pre, letter, padded value)` with `p` deciding the `pre` part, a range read over the rows is
the model's scan over events -/
theorem tagRows_scan (live : List SEv) (hw : ∀ x ∈ live, KeyWf x) (pre : EventRec → Bytes) (P0 : Bytes) (p : EventRec → Bool)
    (letter : Nat) (value : Bytes) (since «until» : Nat) (hs : since ≤ U64MAX) (hu : «until» ≤ U64MAX)
    (hlen : ∀ x ∈ live, (pre x.e).length = P0.length)
    (hp : ∀ x ∈ live, (pre x.e == P0) = p x.e) :
    rowScan (tagRows live pre) ((P0 ++ letter :: pad182 value) ++ (revTime «until» ++ zeros32))
        ((P0 ++ letter :: pad182 value) ++ (revTime since ++ ffs32)) =
      scan live (fun e => p e && hasTagKey e letter value) since «until» := by
  unfold rowScan tagRows scan
  rw [List.filter_flatMap]
  -- per event: the rows within the bounds
  let key : SEv → Bytes := fun x => (P0 ++ letter :: pad182 value) ++ (revTime x.e.createdAt ++ x.e.id)
  let q : SEv → Bool := fun x => (p x.e && hasTagKey x.e letter value) && decide (since ≤ x.e.createdAt) && decide (x.e.createdAt ≤ «until»)
  have hrow : ∀ x ∈ live,
      ((tagKeys x.e).map fun lp => ((pre x.e ++ lp.1 :: lp.2) ++ (revTime x.e.createdAt ++ x.e.id), x)).filter
        (fun r => inRange ((P0 ++ letter :: pad182 value) ++ (revTime «until» ++ zeros32))
          ((P0 ++ letter :: pad182 value) ++ (revTime since ++ ffs32)) r.1) =
      if q x then [(key x, x)] else [] := by
    intro x hx
    obtain ⟨h1, h2, _, _, h5⟩ := hw x hx
    rw [List.filter_map]
    have hin : ∀ lp ∈ tagKeys x.e,
        ((fun r : Bytes × SEv => inRange ((P0 ++ letter :: pad182 value) ++ (revTime «until» ++ zeros32))
            ((P0 ++ letter :: pad182 value) ++ (revTime since ++ ffs32)) r.1) ∘
          fun lp : Nat × Bytes => ((pre x.e ++ lp.1 :: lp.2) ++ (revTime x.e.createdAt ++ x.e.id), x)) lp =
        ((lp == (letter, pad182 value)) && (p x.e && decide (since ≤ x.e.createdAt) && decide (x.e.createdAt ≤ «until»))) := by
      intro lp hlp
      simp only [Function.comp]
      have hl : (pre x.e ++ lp.1 :: lp.2).length = (P0 ++ letter :: pad182 value).length := by
        have := tagKeys_padded x.e lp hlp
        simp only [List.length_append, List.length_cons, hlen x hx, pad182_length]
        rw [← this, pad182_length]
      rw [key_in_range _ _ hl since «until» _ _ hs hu h5 h1 h2]
      have hpre := hp x hx
      have : (pre x.e ++ lp.1 :: lp.2 == P0 ++ letter :: pad182 value) = ((pre x.e == P0) && (lp == (letter, pad182 value))) := by
        by_cases ha : pre x.e = P0
        · rw [ha]
          obtain ⟨l, pv⟩ := lp
          by_cases hb : (l, pv) = (letter, pad182 value)
          · simp only [Prod.mk.injEq] at hb
            simp [hb.1, hb.2]
          · have : (P0 ++ l :: pv == P0 ++ letter :: pad182 value) = false := by
              simp only [beq_eq_false_iff_ne, ne_eq, List.append_cancel_left_eq, List.cons.injEq]
              intro h'
              exact hb (by rw [h'.1, h'.2])
            rw [this]
            have : ((l, pv) == (letter, pad182 value)) = false := by simpa using hb
            rw [this]; simp
        · have hne : (pre x.e == P0) = false := by simpa using ha
          rw [hne]
          simp only [Bool.false_and, beq_eq_false_iff_ne, ne_eq]
          intro h'
          exact ha (List.append_inj_left h' (hlen x hx))
      rw [this, hpre]
      cases p x.e <;> cases (lp == (letter, pad182 value)) <;> simp
    rw [List.filter_congr hin]
    -- now: filter (lp == k0 && c) over a nodup list
    by_cases hc : (p x.e && decide (since ≤ x.e.createdAt) && decide (x.e.createdAt ≤ «until»)) = true
    · have : (tagKeys x.e).filter (fun lp => (lp == (letter, pad182 value)) &&
            (p x.e && decide (since ≤ x.e.createdAt) && decide (x.e.createdAt ≤ «until»))) =
          (tagKeys x.e).filter (fun lp => lp == (letter, pad182 value)) := by
        apply List.filter_congr; intro lp _; rw [hc]; simp
      rw [this, filter_beq_nodup _ _ (tagKeys_nodup x.e)]
      by_cases hm : (letter, pad182 value) ∈ tagKeys x.e
      · have hq : q x = true := by
          simp only [q]
          rw [(hasTagKey_iff x.e letter value).2 hm]
          simp only [Bool.and_eq_true, decide_eq_true_eq] at hc
          simp [hc.1.1, hc.1.2, hc.2]
        have hpre : pre x.e = P0 := by
          have h' := hp x hx
          simp only [Bool.and_eq_true] at hc
          rw [hc.1.1] at h'
          exact eq_of_beq h'
        simp [hm, hq, key, hpre]
      · have hq : q x = false := by
          simp only [q]
          have : hasTagKey x.e letter value = false := by
            cases h : hasTagKey x.e letter value
            · rfl
            · exact absurd ((hasTagKey_iff x.e letter value).1 h) hm
          rw [this]; simp
        simp [hm, hq]
    · have hc' : (p x.e && decide (since ≤ x.e.createdAt) && decide (x.e.createdAt ≤ «until»)) = false := by simpa using hc
      have : (tagKeys x.e).filter (fun lp => (lp == (letter, pad182 value)) &&
            (p x.e && decide (since ≤ x.e.createdAt) && decide (x.e.createdAt ≤ «until»))) = [] := by
        rw [List.filter_eq_nil_iff]; intro lp _; rw [hc']; simp
      rw [this]
      have hq : q x = false := by
        simp only [q]
        cases hpx : p x.e <;> cases h1' : decide (since ≤ x.e.createdAt) <;> cases h2' : decide (x.e.createdAt ≤ «until») <;>
          simp_all
      simp [hq]
  have hfm : (live.flatMap fun a => ((tagKeys a.e).map fun lp => ((pre a.e ++ lp.1 :: lp.2) ++ (revTime a.e.createdAt ++ a.e.id), a)).filter
        (fun r => inRange ((P0 ++ letter :: pad182 value) ++ (revTime «until» ++ zeros32))
          ((P0 ++ letter :: pad182 value) ++ (revTime since ++ ffs32)) r.1)) =
      live.flatMap fun x => if q x then [(key x, x)] else [] := by
    exact flatMap_congr' _ _ _ hrow
  rw [hfm, flatMap_ite, sortRows_map, List.map_map]
  have : ((fun r : Bytes × SEv => r.2) ∘ fun y : SEv => (key y, y)) = id := rfl
  rw [this, List.map_id, sortScan_eq]
  have hq : (live.filter q) = live.filter fun x => (p x.e && hasTagKey x.e letter value) && decide (since ≤ x.e.createdAt) && decide (x.e.createdAt ≤ «until») := rfl
  rw [hq]
  apply sortBy_congr
  intro x hx y hy
  simp only [List.mem_filter] at hx hy
  rw [scanBefore_eq]
  exact key_order (P0 ++ letter :: pad182 value) _ _ _ _ (hw x hx.1).2.2.2.2 (hw y hy.1).2.2.2.2

/-- **the tag index** (`tc_iter`) -/
theorem tc_rowScan (live : List SEv) (hw : ∀ x ∈ live, KeyWf x) (letter : Nat) (value : Bytes)
    (since «until» : Nat) (hs : since ≤ U64MAX) (hu : «until» ≤ U64MAX) :
    rowScan (tagRows live fun _ => []) (keyTc letter value «until» zeros32) (keyTc letter value since ffs32) =
      tcScan live letter value since «until» := by
  have := tagRows_scan live hw (fun _ => []) [] (fun _ => true) letter value since «until» hs hu (fun _ _ => rfl) (fun _ _ => rfl)
  simpa [keyTc, tcScan] using this

/-- **the author-tag index** (`atc_iter`) -/
theorem atc_rowScan (live : List SEv) (hw : ∀ x ∈ live, KeyWf x) (author : Bytes) (ha : author.length = 32) (letter : Nat) (value : Bytes)
    (since «until» : Nat) (hs : since ≤ U64MAX) (hu : «until» ≤ U64MAX) :
    rowScan (tagRows live fun e => e.pubkey) (keyAtc author letter value «until» zeros32) (keyAtc author letter value since ffs32) =
      atcScan live author letter value since «until» := by
  have := tagRows_scan live hw (fun e => e.pubkey) author (fun e => e.pubkey == author) letter value since «until» hs hu
    (fun x hx => by rw [(hw x hx).2.2.1, ha]) (fun _ _ => rfl)
  simpa [keyAtc, atcScan] using this

/-- **the kind-tag index** (`ktc_iter`) -/
theorem ktc_rowScan (live : List SEv) (hw : ∀ x ∈ live, KeyWf x) (kind : Nat) (hk : kind < 65536) (letter : Nat) (value : Bytes)
    (since «until» : Nat) (hs : since ≤ U64MAX) (hu : «until» ≤ U64MAX) :
    rowScan (tagRows live fun e => be16 e.kind) (keyKtc kind letter value «until» zeros32) (keyKtc kind letter value since ffs32) =
      ktcScan live kind letter value since «until» := by
  have := tagRows_scan live hw (fun e => be16 e.kind) (be16 kind) (fun e => e.kind == kind) letter value since «until» hs hu
    (fun _ _ => by simp [be16]) (fun x hx => by
      have h4 := (hw x hx).2.2.2.1
      by_cases h : x.e.kind = kind
      · simp [h]
      · have : (x.e.kind == kind) = false := by simpa using h
        rw [this]
        simp only [beq_eq_false_iff_ne, ne_eq]
        intro h'
        exact h (be16_inj _ _ h4 hk h'))
  simpa [keyKtc, ktcScan] using this

end Pocket

namespace Pocket

/-! ### the rows are what the key dump of the driver prints (`tableKeys`, compared with the real tables) -/

theorem mem_insertBytes (z k : Bytes) (l : List Bytes) : z ∈ insertBytes k l ↔ z = k ∨ z ∈ l := by
  induction l with
  | nil => simp [insertBytes]
  | cons y ys ih =>
    simp only [insertBytes]
    split
    · simp
    · split
      · rename_i h
        have : k = y := eq_of_beq h
        subst this
        simp
      · simp only [List.mem_cons, ih]
        constructor
        · rintro (h | h | h)
          · exact Or.inr (Or.inl h)
          · exact Or.inl h
          · exact Or.inr (Or.inr h)
        · rintro (h | h | h)
          · exact Or.inr (Or.inl h)
          · exact Or.inl h
          · exact Or.inr (Or.inr h)

theorem mem_foldr_insertBytes (z : Bytes) (l : List Bytes) : z ∈ l.foldr insertBytes [] ↔ z ∈ l := by
  induction l with
  | nil => simp
  | cons x xs ih => rw [List.foldr_cons, mem_insertBytes, ih]; simp

end Pocket

namespace Pocket

theorem mem_eventKeys_tc (e : EventRec) (k : Bytes) :
    ("tc", k) ∈ eventKeys e ↔ ∃ t ∈ e.tags, ∃ l v rest, t = [l] :: v :: rest ∧ k = keyTc l v e.createdAt e.id := by
  unfold eventKeys
  rw [List.mem_append]
  constructor
  · rintro (h | h)
    · simp only [List.mem_cons, Prod.mk.injEq, List.not_mem_nil, or_false] at h
      rcases h with h | h | h
      · exact absurd h.1 (by decide)
      · exact absurd h.1 (by decide)
      · exact absurd h.1 (by decide)
    · rw [List.mem_flatten] at h
      obtain ⟨ks, hks, hk⟩ := h
      rw [List.mem_filterMap] at hks
      obtain ⟨t, ht, h⟩ := hks
      refine ⟨t, ht, ?_⟩
      split at h
      · rename_i l v rest
        simp only [Option.some.injEq] at h
        subst h
        simp only [List.mem_cons, Prod.mk.injEq, List.not_mem_nil, or_false] at hk
        rcases hk with hk | hk | hk
        · exact ⟨l, v, rest, rfl, hk.2⟩
        · exact absurd hk.1 (by decide)
        · exact absurd hk.1 (by decide)
      · cases h
  · rintro ⟨t, ht, l, v, rest, rfl, rfl⟩
    right
    rw [List.mem_flatten]
    refine ⟨_, List.mem_filterMap.2 ⟨_, ht, rfl⟩, ?_⟩
    simp
end Pocket

namespace Pocket

theorem mem_eventKeys_atc (e : EventRec) (k : Bytes) :
    ("atc", k) ∈ eventKeys e ↔ ∃ t ∈ e.tags, ∃ l v rest, t = [l] :: v :: rest ∧ k = keyAtc e.pubkey l v e.createdAt e.id := by
  unfold eventKeys
  rw [List.mem_append]
  constructor
  · rintro (h | h)
    · simp only [List.mem_cons, Prod.mk.injEq, List.not_mem_nil, or_false] at h
      rcases h with h | h | h
      · exact absurd h.1 (by decide)
      · exact absurd h.1 (by decide)
      · exact absurd h.1 (by decide)
    · rw [List.mem_flatten] at h
      obtain ⟨ks, hks, hk⟩ := h
      rw [List.mem_filterMap] at hks
      obtain ⟨t, ht, h⟩ := hks
      refine ⟨t, ht, ?_⟩
      split at h
      · rename_i l v rest
        simp only [Option.some.injEq] at h
        subst h
        simp only [List.mem_cons, Prod.mk.injEq, List.not_mem_nil, or_false] at hk
        rcases hk with hk | hk | hk
        · exact absurd hk.1 (by decide)
        · exact ⟨l, v, rest, rfl, hk.2⟩
        · exact absurd hk.1 (by decide)
      · cases h
  · rintro ⟨t, ht, l, v, rest, rfl, rfl⟩
    right
    rw [List.mem_flatten]
    refine ⟨_, List.mem_filterMap.2 ⟨_, ht, rfl⟩, ?_⟩
    simp

theorem mem_eventKeys_ktc (e : EventRec) (k : Bytes) :
    ("ktc", k) ∈ eventKeys e ↔ ∃ t ∈ e.tags, ∃ l v rest, t = [l] :: v :: rest ∧ k = keyKtc e.kind l v e.createdAt e.id := by
  unfold eventKeys
  rw [List.mem_append]
  constructor
  · rintro (h | h)
    · simp only [List.mem_cons, Prod.mk.injEq, List.not_mem_nil, or_false] at h
      rcases h with h | h | h
      · exact absurd h.1 (by decide)
      · exact absurd h.1 (by decide)
      · exact absurd h.1 (by decide)
    · rw [List.mem_flatten] at h
      obtain ⟨ks, hks, hk⟩ := h
      rw [List.mem_filterMap] at hks
      obtain ⟨t, ht, h⟩ := hks
      refine ⟨t, ht, ?_⟩
      split at h
      · rename_i l v rest
        simp only [Option.some.injEq] at h
        subst h
        simp only [List.mem_cons, Prod.mk.injEq, List.not_mem_nil, or_false] at hk
        rcases hk with hk | hk | hk
        · exact absurd hk.1 (by decide)
        · exact absurd hk.1 (by decide)
        · exact ⟨l, v, rest, rfl, hk.2⟩
      · cases h
  · rintro ⟨t, ht, l, v, rest, rfl, rfl⟩
    right
    rw [List.mem_flatten]
    refine ⟨_, List.mem_filterMap.2 ⟨_, ht, rfl⟩, ?_⟩
    simp

theorem mem_tableKeys (live : List SEv) (table : String) (k : Bytes) :
    k ∈ tableKeys live table ↔ ∃ x ∈ live, (table, k) ∈ eventKeys x.e := by
  unfold tableKeys
  rw [mem_foldr_insertBytes, List.mem_flatMap]
  constructor
  · rintro ⟨x, hx, h⟩
    rw [List.mem_filterMap] at h
    obtain ⟨⟨t, k'⟩, hm, h⟩ := h
    refine ⟨x, hx, ?_⟩
    by_cases ht : (t == table) = true
    · simp only [ht, if_true, Option.some.injEq] at h
      rw [← h, ← eq_of_beq ht]; exact hm
    · simp [ht] at h
  · rintro ⟨x, hx, h⟩
    exact ⟨x, hx, List.mem_filterMap.2 ⟨(table, k), h, by simp⟩⟩

theorem mem_tagRows (live : List SEv) (pre : EventRec → Bytes) (k : Bytes) :
    k ∈ (tagRows live pre).map (·.1) ↔
      ∃ x ∈ live, ∃ t ∈ x.e.tags, ∃ l v rest, t = [l] :: v :: rest ∧ k = (pre x.e ++ l :: pad182 v) ++ (revTime x.e.createdAt ++ x.e.id) := by
  unfold tagRows
  rw [List.mem_map]
  constructor
  · rintro ⟨r, hr, rfl⟩
    rw [List.mem_flatMap] at hr
    obtain ⟨x, hx, hr⟩ := hr
    rw [List.mem_map] at hr
    obtain ⟨⟨l, pv⟩, hlp, rfl⟩ := hr
    obtain ⟨t, ht, v, rest, e1, e2⟩ := (mem_tagKeys x.e l pv).1 hlp
    exact ⟨x, hx, t, ht, l, v, rest, e1, by rw [e2]⟩
  · rintro ⟨x, hx, t, ht, l, v, rest, e1, rfl⟩
    refine ⟨(_, x), List.mem_flatMap.2 ⟨x, hx, List.mem_map.2 ⟨(l, pad182 v), (mem_tagKeys x.e l _).2 ⟨t, ht, v, rest, e1, rfl⟩, rfl⟩⟩, rfl⟩

/-- **the rows of the three theorems above are the keys the driver dumps** (`KYS`, compared with the real
LMDB tables after every step of every history) -/
theorem tableKeys_tc (live : List SEv) (k : Bytes) : k ∈ tableKeys live "tc" ↔ k ∈ (tagRows live fun _ => []).map (·.1) := by
  rw [mem_tableKeys, mem_tagRows]
  constructor
  · rintro ⟨x, hx, h⟩
    obtain ⟨t, ht, l, v, rest, e1, e2⟩ := (mem_eventKeys_tc x.e k).1 h
    exact ⟨x, hx, t, ht, l, v, rest, e1, by rw [e2]; rfl⟩
  · rintro ⟨x, hx, t, ht, l, v, rest, e1, e2⟩
    exact ⟨x, hx, (mem_eventKeys_tc x.e k).2 ⟨t, ht, l, v, rest, e1, by rw [e2]; rfl⟩⟩

theorem tableKeys_atc (live : List SEv) (k : Bytes) : k ∈ tableKeys live "atc" ↔ k ∈ (tagRows live fun e => e.pubkey).map (·.1) := by
  rw [mem_tableKeys, mem_tagRows]
  constructor
  · rintro ⟨x, hx, h⟩
    obtain ⟨t, ht, l, v, rest, e1, e2⟩ := (mem_eventKeys_atc x.e k).1 h
    exact ⟨x, hx, t, ht, l, v, rest, e1, by rw [e2]; rfl⟩
  · rintro ⟨x, hx, t, ht, l, v, rest, e1, e2⟩
    exact ⟨x, hx, (mem_eventKeys_atc x.e k).2 ⟨t, ht, l, v, rest, e1, by rw [e2]; rfl⟩⟩

theorem tableKeys_ktc (live : List SEv) (k : Bytes) : k ∈ tableKeys live "ktc" ↔ k ∈ (tagRows live fun e => be16 e.kind).map (·.1) := by
  rw [mem_tableKeys, mem_tagRows]
  constructor
  · rintro ⟨x, hx, h⟩
    obtain ⟨t, ht, l, v, rest, e1, e2⟩ := (mem_eventKeys_ktc x.e k).1 h
    exact ⟨x, hx, t, ht, l, v, rest, e1, by rw [e2]; rfl⟩
  · rintro ⟨x, hx, t, ht, l, v, rest, e1, e2⟩
    exact ⟨x, hx, (mem_eventKeys_ktc x.e k).2 ⟨t, ht, l, v, rest, e1, by rw [e2]; rfl⟩⟩

end Pocket
