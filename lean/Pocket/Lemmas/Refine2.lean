import Pocket.Lemmas.Refine
import Pocket.Lemmas.Vanish
/- Refinement, continued: `vanish` and `rebuild` against the abstract store. -/
namespace Pocket

/-- a sublist that has exactly the members satisfying `p` IS the filter (no element occurs twice) -/
theorem sublist_eq_filter {α : Type} (l' l : List α) (hs : l'.Sublist l) (hnd : l.Nodup) (p : α → Bool)
    (hm : ∀ x, x ∈ l' ↔ (x ∈ l ∧ p x = true)) : l' = l.filter p := by
  induction hs with
  | slnil => rfl
  | @cons l₁ l₂ a hsub ih =>
    rw [List.nodup_cons] at hnd
    have ha' : a ∉ l₁ := fun h => hnd.1 (hsub.subset h)
    have hpa : p a = false := by
      cases hp : p a with
      | false => rfl
      | true => exact absurd ((hm a).mpr ⟨by simp, hp⟩) ha'
    rw [List.filter_cons, hpa]
    simp only [Bool.false_eq_true, if_false]
    apply ih hnd.2
    intro x
    constructor
    · intro hx
      obtain ⟨h1, h2⟩ := (hm x).mp hx
      rcases List.mem_cons.mp h1 with rfl | h1
      · exact absurd hx ha'
      · exact ⟨h1, h2⟩
    · rintro ⟨h1, h2⟩
      exact (hm x).mpr ⟨List.mem_cons_of_mem _ h1, h2⟩
  | @cons_cons l₁ l₂ a hsub ih =>
    rw [List.nodup_cons] at hnd
    have hpa : p a = true := ((hm a).mp (by simp)).2
    rw [List.filter_cons, hpa]
    simp only [if_true]
    congr 1
    apply ih hnd.2
    intro x
    constructor
    · intro hx
      obtain ⟨h1, h2⟩ := (hm x).mp (List.mem_cons_of_mem _ hx)
      rcases List.mem_cons.mp h1 with rfl | h1
      · exact absurd (hsub.subset hx) hnd.1
      · exact ⟨h1, h2⟩
    · rintro ⟨h1, h2⟩
      rcases List.mem_cons.mp ((hm x).mpr ⟨List.mem_cons_of_mem _ h1, h2⟩) with rfl | h
      · exact absurd h1 hnd.1
      · exact h

/-- **refinement of `vanish`** (two queries through the index plans, then removal one by one) -/
theorem vanish_refines (s : Store) (hi : Inv s) (hau : AddrUniq s.db.live) (hlen : s.db.live.length < U32MAX)
    (ht : ∀ y ∈ s.db.live, y.e.createdAt ≤ U64MAX) (pk : Bytes) :
    Abs.of (vanish s pk) = absVanish (Abs.of s) pk := by
  have hex := vanish_exact s hi.liveIds hau hlen ht pk
  have hsub := vanish_sublist s pk
  have hnd := nodup_of_ids s.db.live hi.liveIds
  have heq := sublist_eq_filter (vanish s pk).db.live s.db.live hsub hnd
    (fun x => !(x.e.pubkey == pk) && !(x.e.kind == 1059 && tagsMatch x.e.tags KEY_P (hexOf pk)))
    (by
      intro x
      rw [hex x]
      constructor
      · rintro ⟨h1, h2, h3⟩
        refine ⟨h1, ?_⟩
        have e1 : (x.e.pubkey == pk) = false := by simpa using h2
        have e2 : (x.e.kind == 1059 && tagsMatch x.e.tags KEY_P (hexOf pk)) = false := by
          simp only [Bool.and_eq_false_iff, beq_eq_false_iff_ne, ne_eq]
          by_cases hk : x.e.kind = 1059
          · right
            cases hm : tagsMatch x.e.tags KEY_P (hexOf pk) with
            | false => rfl
            | true => exact absurd ⟨hk, hm⟩ h3
          · left; exact hk
        rw [e1, e2]; rfl
      · rintro ⟨h1, h2⟩
        simp only [Bool.and_eq_true, Bool.not_eq_true', beq_eq_false_iff_ne, ne_eq, Bool.and_eq_false_iff] at h2
        refine ⟨h1, h2.1, ?_⟩
        rintro ⟨hk, hm⟩
        rcases h2.2 with h | h
        · exact h hk
        · rw [hm] at h; cases h)
  have hrest : (vanish s pk).db.delIds = s.db.delIds ∧ (vanish s pk).db.delAddrs = s.db.delAddrs ∧
      (vanish s pk).log = s.log ∧ (vanish s pk).end = s.end := ⟨rfl, rfl, rfl, rfl⟩
  simp only [Abs.of, absVanish, hrest.1, hrest.2.1, hrest.2.2.1, hrest.2.2.2, heq]
  congr 1
  exact map_filter_e s.db.live (fun e => !(e.pubkey == pk) && !(e.kind == 1059 && tagsMatch e.tags KEY_P (hexOf pk)))

/-! ### rebuild -/

theorem insertById_map (x : SEv) (l : List SEv) :
    (insertById x l).map (·.e) = insertByIdE x.e (l.map (·.e)) := by
  induction l with
  | nil => rfl
  | cons y ys ih =>
    simp only [insertById, List.map_cons, insertByIdE]
    split <;> simp [ih]

theorem sortById_map (l : List SEv) :
    (l.foldr insertById []).map (·.e) = (l.map (·.e)).foldr insertByIdE [] := by
  induction l with
  | nil => rfl
  | cons x l ih => simp only [List.foldr_cons, List.map_cons, insertById_map, ih]

theorem relog_map (xs : List SEv) (n : Nat) :
    (relog xs n).1.map (fun x => (x.off, x.e)) = (relogE (xs.map (·.e)) n).1 ∧ (relog xs n).2 = (relogE (xs.map (·.e)) n).2 := by
  induction xs generalizing n with
  | nil => exact ⟨rfl, rfl⟩
  | cons x xs ih =>
    obtain ⟨h1, h2⟩ := ih (align8 n + eventLen x.e)
    simp only [relog, relogE, List.map_cons, h1, h2, and_self]

/-- **refinement of `rebuild`** -/
theorem rebuild_refines (s : Store) : Abs.of (rebuild s) = absRebuild (Abs.of s) := by
  obtain ⟨h1, h2⟩ := relog_map (s.db.live.foldr insertById []) 8
  have h3 := relog_events (s.db.live.foldr insertById []) 8
  simp only [Abs.of, rebuild, absRebuild, h1, h2, h3, sortById_map]

/-- an operation other than vanish (whose refinement needs the bounds of `vanish_refines`) -/
inductive BOp where
  | store (e : EventRec)
  | remove (id : Bytes)
  | reopen
  | rebuild

def BOp.toOp : BOp → Op
  | .store e => .store e
  | .remove id => .remove id
  | .reopen => .reopen
  | .rebuild => .rebuild

/-- **refinement over whole histories, rebuilds included** -/
theorem run_refines_rebuild (ops : List BOp) (s : Store) (hi : Inv s) :
    Abs.of (run s (ops.map BOp.toOp)) = (ops.map BOp.toOp).foldl absOp (Abs.of s) := by
  induction ops generalizing s with
  | nil => rfl
  | cons op ops ih =>
    simp only [List.map_cons, run, List.foldl_cons]
    have hstep : Abs.of (step s op.toOp) = absOp (Abs.of s) op.toOp := by
      cases op with
      | store e => exact (storeEvent_refines s hi e).2
      | remove id => exact removeEvent_refines s id
      | reopen => rfl
      | rebuild => exact rebuild_refines s
    rw [← hstep]
    exact ih (step s op.toOp) (Inv_step s op.toOp hi)

/-! ### every history, vanish included -/

/-- the bounds `vanish_refines` needs: `u64` timestamps and fewer than 2^32 − 1 retrievable events -/
structure Bounded (s : Store) (n : Nat) : Prop where
  times : ∀ y ∈ s.db.live, y.e.createdAt ≤ U64MAX
  len : s.db.live.length ≤ n

def opTimeOk : Op → Prop
  | .store e => e.createdAt ≤ U64MAX
  | _ => True

theorem Bounded_step (s : Store) (n : Nat) (hb : Bounded s n) (op : Op) (ht : opTimeOk op) : Bounded (step s op) (n + 1) := by
  obtain ⟨h1, h2⟩ := hb
  cases op with
  | store e =>
    have hsub := storeEvent_live_sublist s e
    refine ⟨?_, ?_⟩
    · intro y hy
      rcases List.mem_append.mp (hsub.subset hy) with h | h
      · exact h1 y h
      · simp only [List.mem_singleton] at h; subst h; exact ht
    · have := hsub.length_le
      simp only [List.length_append, List.length_cons, List.length_nil] at this
      show ((storeEvent s e).2.db.live).length ≤ n + 1
      omega
  | remove id =>
    have hsub : (removeEvent s id).db.live.Sublist s.db.live := removeId_sublist _ _
    exact ⟨fun y hy => h1 y (hsub.subset hy), by have := hsub.length_le; show (removeEvent s id).db.live.length ≤ n + 1; omega⟩
  | vanish pk =>
    have hsub := vanish_sublist s pk
    exact ⟨fun y hy => h1 y (hsub.subset hy), by have := hsub.length_le; show (vanish s pk).db.live.length ≤ n + 1; omega⟩
  | reopen => exact ⟨h1, by show s.db.live.length ≤ n + 1; omega⟩
  | rebuild =>
    have hev := relog_events (s.db.live.foldr insertById []) 8
    have hp := sortById_perm s.db.live
    refine ⟨?_, ?_⟩
    · intro y hy
      have hy' : y.e ∈ ((relog (s.db.live.foldr insertById []) 8).1).map (·.e) := List.mem_map.mpr ⟨y, hy, rfl⟩
      rw [hev] at hy'
      obtain ⟨z, hz, hze⟩ := List.mem_map.mp hy'
      rw [← hze]
      exact h1 z (hp.subset hz)
    · have hl : (relog (s.db.live.foldr insertById []) 8).1.length = s.db.live.length := by
        have := congrArg List.length hev
        simp only [List.length_map] at this
        rw [this, hp.length_eq]
      show (relog (s.db.live.foldr insertById []) 8).1.length ≤ n + 1
      omega

theorem step_addrUniq' (s : Store) (op : Op) (hu : AddrUniq s.db.live) (hi : Inv s) :
    AddrUniq (step s op).db.live := by
  cases op with
  | store e => exact AddrUniq_storeEvent s e hu
  | remove id => exact AddrUniq_subset _ _ hu (fun x hx => (removeId_sublist _ _).subset hx)
  | vanish pk => exact AddrUniq_subset _ _ hu (fun x hx => (vanish_sublist s pk).subset hx)
  | reopen => exact hu
  | rebuild =>
    intro x hx y hy hxy hne
    have hi' := Inv_rebuild s hi
    have hp : ((rebuild s).db.live.map (·.e)).Perm (s.db.live.map (·.e)) := by
      unfold rebuild; dsimp only; rw [relog_events]; exact (sortById_perm s.db.live).map _
    obtain ⟨x', hx', hxe⟩ := List.mem_map.mp (hp.subset (List.mem_map.mpr ⟨x, hx, rfl⟩))
    obtain ⟨y', hy', hye⟩ := List.mem_map.mp (hp.subset (List.mem_map.mpr ⟨y, hy, rfl⟩))
    have := hu x' hx' y' hy' (by rw [hxe, hye]; exact hxy) (by rw [hxe]; exact hne)
    have hid : x.e.id = y.e.id := by rw [← hxe, ← hye, this]
    exact nodup_ids_inj _ hi'.liveIds x hx y hy hid

/-- **refinement over EVERY history** — stores (accepted or refused, deletion requests included), removals,
vanishes, reopens and rebuilds from the empty store, with `u64` timestamps and fewer than 2^32 − 1
operations: the concrete model's state is the abstract store's state -/
theorem full_history_refines (ops : List Op) (ht : ∀ op ∈ ops, opTimeOk op) (hlen : ops.length < U32MAX) :
    Abs.of (run {} ops) = ops.foldl absOp (Abs.of {}) := by
  have gen : ∀ (ops : List Op) (s : Store) (n : Nat), Inv s → AddrUniq s.db.live → Bounded s n →
      (∀ op ∈ ops, opTimeOk op) → n + ops.length < U32MAX →
      Abs.of (run s ops) = ops.foldl absOp (Abs.of s) := by
    intro ops
    induction ops with
    | nil => intro s n _ _ _ _ _; rfl
    | cons op ops ih =>
      intro s n hi hu hb hts hl
      simp only [run, List.foldl_cons]
      have hstep : Abs.of (step s op) = absOp (Abs.of s) op := by
        cases op with
        | store e => exact (storeEvent_refines s hi e).2
        | remove id => exact removeEvent_refines s id
        | vanish pk =>
          exact vanish_refines s hi hu (by have := hb.len; simp only [List.length_cons] at hl; omega) hb.times pk
        | reopen => rfl
        | rebuild => exact rebuild_refines s
      rw [← hstep]
      exact ih (step s op) (n + 1) (Inv_step s op hi) (step_addrUniq' s op hu hi)
        (Bounded_step s n hb op (hts op (by simp))) (fun o ho => hts o (by simp [ho]))
        (by simp only [List.length_cons] at hl; omega)
  exact gen ops {} 0 Inv_init (by intro x hx; cases hx) ⟨fun y hy => (by cases hy), Nat.le_refl _⟩ ht (by omega)

end Pocket
