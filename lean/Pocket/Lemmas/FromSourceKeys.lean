import Pocket.Src.Keys
/- What the source says NOW about the six query-index keys (`Pocket/Src/Keys.lean`: the statements of `key_*_index` and the
two ends of the range each `*_iter` reads, translated from lmdb/mod.rs on every check run) against the model's byte keys
(`Model/Keys.lean`), which the order / range / scan theorems are about. -/
namespace Pocket

theorem keys_from_source (author value id : Bytes) (kind letter t : Nat) :
    Src.keyCi t id = keyCi t id ∧ Src.keyAc author t id = keyAc author t id ∧ Src.keyAkc author kind t id = keyAkc author kind t id ∧
    Src.keyTc letter value t id = keyTc letter value t id ∧ Src.keyAtc author letter value t id = keyAtc author letter value t id ∧
    Src.keyKtc kind letter value t id = keyKtc kind letter value t id := by
  refine ⟨?_, ?_, ?_, ?_, ?_, ?_⟩ <;>
    simp [Src.keyCi, Src.keyAc, Src.keyAkc, Src.keyTc, Src.keyAtc, Src.keyKtc, keyCi, keyAc, keyAkc, keyTc, keyAtc, keyKtc, revTime, pad182,
      List.append_assoc]

/-- the ends of every range read: the key at `until` with the all-zero id, the key at `since` with the all-ones id, both
inclusive — the bounds `index_range_bounds`, `…_index_scan` and `tag_index_scan` are stated for -/
theorem iter_bounds_from_source (author value : Bytes) (kind letter since «until» : Nat) :
    (Src.ciIterLo since «until» = keyCi «until» zeros32 ∧ Src.ciIterHi since «until» = keyCi since ffs32 ∧ Src.ciIterInclusive = (true, true)) ∧
    (Src.acIterLo author since «until» = keyAc author «until» zeros32 ∧ Src.acIterHi author since «until» = keyAc author since ffs32 ∧
      Src.acIterInclusive = (true, true)) ∧
    (Src.akcIterLo author kind since «until» = keyAkc author kind «until» zeros32 ∧ Src.akcIterHi author kind since «until» = keyAkc author kind since ffs32 ∧
      Src.akcIterInclusive = (true, true)) ∧
    (Src.tcIterLo letter value since «until» = keyTc letter value «until» zeros32 ∧ Src.tcIterHi letter value since «until» = keyTc letter value since ffs32 ∧
      Src.tcIterInclusive = (true, true)) ∧
    (Src.atcIterLo author letter value since «until» = keyAtc author letter value «until» zeros32 ∧
      Src.atcIterHi author letter value since «until» = keyAtc author letter value since ffs32 ∧ Src.atcIterInclusive = (true, true)) ∧
    (Src.ktcIterLo kind letter value since «until» = keyKtc kind letter value «until» zeros32 ∧
      Src.ktcIterHi kind letter value since «until» = keyKtc kind letter value since ffs32 ∧ Src.ktcIterInclusive = (true, true)) := by
  have k := fun t id => keys_from_source author value id kind letter t
  refine ⟨⟨?_, ?_, rfl⟩, ⟨?_, ?_, rfl⟩, ⟨?_, ?_, rfl⟩, ⟨?_, ?_, rfl⟩, ⟨?_, ?_, rfl⟩, ⟨?_, ?_, rfl⟩⟩
  · exact (k _ _).1
  · exact (k _ _).1
  · exact (k _ _).2.1
  · exact (k _ _).2.1
  · exact (k _ _).2.2.1
  · exact (k _ _).2.2.1
  · exact (k _ _).2.2.2.1
  · exact (k _ _).2.2.2.1
  · exact (k _ _).2.2.2.2.1
  · exact (k _ _).2.2.2.2.1
  · exact (k _ _).2.2.2.2.2
  · exact (k _ _).2.2.2.2.2

theorem mem_flatten_filterMap_congr {α β : Type} (f g : α → Option (List β)) (l : List α) (x : β)
    (h : ∀ t ∈ l, (∃ ys, f t = some ys ∧ x ∈ ys) ↔ (∃ ys, g t = some ys ∧ x ∈ ys)) :
    x ∈ (l.filterMap f).flatten ↔ x ∈ (l.filterMap g).flatten := by
  simp only [List.mem_flatten, List.mem_filterMap]
  constructor
  · rintro ⟨ys, ⟨t, ht, hf⟩, hx⟩
    obtain ⟨zs, hg, hz⟩ := (h t ht).1 ⟨ys, hf, hx⟩
    exact ⟨zs, ⟨t, ht, hg⟩, hz⟩
  · rintro ⟨ys, ⟨t, ht, hg⟩, hx⟩
    obtain ⟨zs, hf, hz⟩ := (h t ht).2 ⟨ys, hg, hx⟩
    exact ⟨zs, ⟨t, ht, hf⟩, hz⟩

/-- what `Lmdb::index` puts and what `Lmdb::deindex` deletes for an event, as the source spells them today (the fixed entries in
their order, the loop over the tags with its guards "a name, of one byte, and a value", the three tag entries in their order), are
the same (table, key) pairs - the ones the model's `eventKeys` lists and the key dump `KYS` is compared with -/
theorem index_walk_from_source (e : EventRec) (tk : String × Bytes) :
    (tk ∈ Src.indexKeys e ↔ tk ∈ eventKeys e) ∧ (tk ∈ Src.deindexKeys e ↔ tk ∈ eventKeys e) := by
  have k := fun (author value id : Bytes) (kind letter t : Nat) => keys_from_source author value id kind letter t
  constructor
  · unfold Src.indexKeys eventKeys
    rw [List.mem_append, List.mem_append]
    apply or_congr
    · simp only [List.mem_cons, List.not_mem_nil, or_false]
      rw [(k e.pubkey [] e.id e.kind 0 e.createdAt).1, (k e.pubkey [] e.id e.kind 0 e.createdAt).2.1, (k e.pubkey [] e.id e.kind 0 e.createdAt).2.2.1]
      constructor
      · rintro (h | h | h)
        · exact Or.inl h
        · exact Or.inr (Or.inr h)
        · exact Or.inr (Or.inl h)
      · rintro (h | h | h)
        · exact Or.inl h
        · exact Or.inr (Or.inr h)
        · exact Or.inr (Or.inl h)
    · apply mem_flatten_filterMap_congr
      intro t _
      rcases t with _ | ⟨n, _ | ⟨v, rest⟩⟩
      · simp
      · rcases n with _ | ⟨l, _ | ⟨l2, n'⟩⟩ <;> simp
      · rcases n with _ | ⟨l, _ | ⟨l2, n'⟩⟩
        · simp
        · simp only [Option.some.injEq, exists_eq_left', List.mem_cons, List.not_mem_nil, or_false]
          rw [(k e.pubkey v e.id e.kind l e.createdAt).2.2.2.1, (k e.pubkey v e.id e.kind l e.createdAt).2.2.2.2.1,
            (k e.pubkey v e.id e.kind l e.createdAt).2.2.2.2.2]
        · simp
  · unfold Src.deindexKeys eventKeys
    rw [List.mem_append, List.mem_append]
    apply or_congr
    · simp only [List.mem_cons, List.not_mem_nil, or_false]
      rw [(k e.pubkey [] e.id e.kind 0 e.createdAt).1, (k e.pubkey [] e.id e.kind 0 e.createdAt).2.1, (k e.pubkey [] e.id e.kind 0 e.createdAt).2.2.1]
      constructor
      · rintro (h | h | h)
        · exact Or.inr (Or.inl h)
        · exact Or.inl h
        · exact Or.inr (Or.inr h)
      · rintro (h | h | h)
        · exact Or.inr (Or.inl h)
        · exact Or.inl h
        · exact Or.inr (Or.inr h)
    · apply mem_flatten_filterMap_congr
      intro t _
      rcases t with _ | ⟨n, _ | ⟨v, rest⟩⟩
      · simp
      · rcases n with _ | ⟨l, _ | ⟨l2, n'⟩⟩ <;> simp
      · rcases n with _ | ⟨l, _ | ⟨l2, n'⟩⟩
        · simp
        · simp only [Option.some.injEq, exists_eq_left', List.mem_cons, List.not_mem_nil, or_false]
          rw [(k e.pubkey v e.id e.kind l e.createdAt).2.2.2.1, (k e.pubkey v e.id e.kind l e.createdAt).2.2.2.2.1,
            (k e.pubkey v e.id e.kind l e.createdAt).2.2.2.2.2]
          constructor
          · rintro (h | h | h)
            · exact Or.inr (Or.inl h)
            · exact Or.inr (Or.inr h)
            · exact Or.inl h
          · rintro (h | h | h)
            · exact Or.inr (Or.inr h)
            · exact Or.inl h
            · exact Or.inr (Or.inl h)
        · simp

end Pocket
