import Pocket.Lemmas.StoreRead
/- soundness of `find_events`: whatever plan serves the filter (C05, C17) -/
namespace Pocket

/-- what holds of the collected output at every point of every plan -/
structure Good (live : List SEv) (f : FilterRec) (scr : EventRec → Screen) (st : FindState) : Prop where
  sound : ∀ x ∈ st.out, x ∈ live ∧ eventMatches f x.e = true ∧ scr x.e = .match
  nodup : st.out.Pairwise (fun a b => a.e.id ≠ b.e.id)
  red : st.redacted = true → ∃ x ∈ live, eventMatches f x.e = true ∧ scr x.e = .redacted

theorem Good_init (live : List SEv) (f : FilterRec) (scr : EventRec → Screen) (since : Nat) :
    Good live f scr { since := since } := by
  refine ⟨?_, ?_, ?_⟩
  · intro x hx; simp at hx
  · exact List.Pairwise.nil
  · intro h; simp at h

theorem accept_spec (f : FilterRec) (scr : EventRec → Screen) (x : SEv) (st : FindState) :
    (accept f scr x st).2.out = st.out ∧ (accept f scr x st).2.since = st.since ∧
    ((accept f scr x st).1 = true → eventMatches f x.e = true ∧ scr x.e = .match) ∧
    ((accept f scr x st).2.redacted = true → st.redacted = true ∨
      (eventMatches f x.e = true ∧ scr x.e = .redacted)) := by
  unfold accept
  split
  · rename_i hm
    split <;> simp_all
  · refine ⟨rfl, rfl, ?_, ?_⟩
    · intro h; cases h
    · intro h; exact Or.inl h

theorem insertOut_mem (out : List SEv) (x y : SEv) (h : y ∈ insertOut out x) : y ∈ out ∨ y = x := by
  unfold insertOut at h
  split at h
  · exact Or.inl h
  · rcases List.mem_append.mp h with h | h
    · exact Or.inl h
    · exact Or.inr (by simpa using h)

theorem insertOut_nodup (out : List SEv) (x : SEv) (h : out.Pairwise (fun a b => a.e.id ≠ b.e.id)) :
    (insertOut out x).Pairwise (fun a b => a.e.id ≠ b.e.id) := by
  unfold insertOut
  split
  · exact h
  · rename_i hn
    rw [List.pairwise_append]
    refine ⟨h, by simp, ?_⟩
    intro a ha b hb
    simp only [List.mem_singleton] at hb; subst hb
    intro hab
    apply hn
    exact List.any_eq_true.mpr ⟨a, ha, by simp [hab]⟩

/-- examining one live event keeps the invariant -/
theorem Good_accept_insert (live : List SEv) (f : FilterRec) (scr : EventRec → Screen) (st : FindState)
    (x : SEv) (hx : x ∈ live) (hg : Good live f scr st) :
    Good live f scr (accept f scr x st).2 ∧
    ((accept f scr x st).1 = true →
      Good live f scr { (accept f scr x st).2 with out := insertOut (accept f scr x st).2.out x }) := by
  obtain ⟨h1, _, h3, h4⟩ := accept_spec f scr x st
  have hg1 : Good live f scr (accept f scr x st).2 := by
    refine ⟨by rw [h1]; exact hg.sound, by rw [h1]; exact hg.nodup, fun hr => ?_⟩
    rcases h4 hr with h | h
    · exact hg.red h
    · exact ⟨x, hx, h⟩
  refine ⟨hg1, fun hok => ⟨?_, insertOut_nodup _ _ hg1.nodup, hg1.red⟩⟩
  intro y hy
  rcases insertOut_mem _ _ _ hy with hy | rfl
  · exact hg1.sound y hy
  · exact ⟨hx, h3 hok⟩

theorem Good_since (live : List SEv) (f : FilterRec) (scr : EventRec → Screen) (st : FindState) (n : Nat)
    (hg : Good live f scr st) : Good live f scr { st with since := n } := ⟨hg.sound, hg.nodup, hg.red⟩

theorem Good_consumeRange (live : List SEv) (f : FilterRec) (scr : EventRec → Screen) (stop : Bool)
    (l : List SEv) (hl : ∀ x ∈ l, x ∈ live) (count : Nat) (st : FindState) (hg : Good live f scr st) :
    Good live f scr (consumeRange f scr stop l count st) := by
  induction l generalizing count st with
  | nil => exact hg
  | cons x rest ih =>
    have hx := hl x (by simp)
    have hrest : ∀ y ∈ rest, y ∈ live := fun y hy => hl y (by simp [hy])
    obtain ⟨g1, g2⟩ := Good_accept_insert live f scr st x hx hg
    unfold consumeRange
    split
    · exact hg
    · dsimp only
      split
      · rename_i hok
        have g := g2 hok
        split
        · exact Good_since _ _ _ _ _ g
        · split
          · exact g
          · exact ih hrest _ _ g
      · exact ih hrest _ _ g1

theorem Good_consumeRangeAc (live : List SEv) (f : FilterRec) (scr : EventRec → Screen)
    (l : List SEv) (hl : ∀ x ∈ l, x ∈ live) (count : Nat) (st : FindState) (hg : Good live f scr st) :
    Good live f scr (consumeRangeAc f scr l count st) := by
  induction l generalizing count st with
  | nil => exact hg
  | cons x rest ih =>
    have hx := hl x (by simp)
    have hrest : ∀ y ∈ rest, y ∈ live := fun y hy => hl y (by simp [hy])
    obtain ⟨g1, g2⟩ := Good_accept_insert live f scr st x hx hg
    unfold consumeRangeAc
    split
    · exact hg
    · dsimp only
      split
      · rename_i hok
        have g := g2 hok
        split
        · exact Good_since _ _ _ _ _ g
        · exact ih hrest _ _ g
      · exact ih hrest _ _ g1

theorem Good_consumeScrape (live : List SEv) (f : FilterRec) (scr : EventRec → Screen)
    (l : List SEv) (hl : ∀ x ∈ l, x ∈ live) (st : FindState) (hg : Good live f scr st) :
    Good live f scr (consumeScrape f scr l st) := by
  induction l generalizing st with
  | nil => exact hg
  | cons x rest ih =>
    have hx := hl x (by simp)
    have hrest : ∀ y ∈ rest, y ∈ live := fun y hy => hl y (by simp [hy])
    obtain ⟨g1, g2⟩ := Good_accept_insert live f scr st x hx hg
    unfold consumeScrape
    split
    · exact hg
    · dsimp only
      split
      · rename_i hok; exact ih hrest _ (g2 hok)
      · exact ih hrest _ g1

theorem insertSorted_mem (x y : SEv) (l : List SEv) : y ∈ insertSorted x l ↔ y = x ∨ y ∈ l := by
  induction l with
  | nil => simp [insertSorted]
  | cons a l ih =>
    unfold insertSorted
    split
    · simp
    · simp only [List.mem_cons, ih]
      constructor
      · rintro (h | h | h)
        · exact Or.inr (Or.inl h)
        · exact Or.inl h
        · exact Or.inr (Or.inr h)
      · rintro (h | h | h)
        · exact Or.inr (Or.inl h)
        · exact Or.inl h
        · exact Or.inr (Or.inr h)

theorem sortScan_mem (l : List SEv) (y : SEv) : y ∈ sortScan l ↔ y ∈ l := by
  unfold sortScan
  induction l with
  | nil => simp
  | cons a l ih => simp only [List.foldr_cons, insertSorted_mem, ih, List.mem_cons]

/-- a range scan returns only indexed events (that satisfy the probe and lie in the window) -/
theorem scan_mem (live : List SEv) (p : EventRec → Bool) (since «until» : Nat) (x : SEv)
    (h : x ∈ scan live p since «until») :
    x ∈ live ∧ p x.e = true ∧ since ≤ x.e.createdAt ∧ x.e.createdAt ≤ «until» := by
  unfold scan at h
  rw [sortScan_mem] at h
  simp only [List.mem_filter, Bool.and_eq_true, decide_eq_true_eq] at h
  exact ⟨h.1, h.2.1.1, h.2.1.2, h.2.2⟩

theorem Good_planRanges (live : List SEv) (f : FilterRec) (scr : EventRec → Screen)
    (rs : List (Bool × (Nat → List SEv))) (hr : ∀ r ∈ rs, ∀ n, ∀ x ∈ r.2 n, x ∈ live)
    (st : FindState) (hg : Good live f scr st) : Good live f scr (planRanges f scr rs st) := by
  induction rs generalizing st with
  | nil => exact hg
  | cons r rest ih =>
    obtain ⟨stop, range⟩ := r
    unfold planRanges
    exact ih (fun r' hr' => hr r' (by simp [hr'])) _
      (Good_consumeRange live f scr stop _ (hr (stop, range) (by simp) st.since) 0 st hg)

theorem Good_planAc (live : List SEv) (f : FilterRec) (scr : EventRec → Screen) (as : List Bytes)
    (st : FindState) (hg : Good live f scr st) : Good live f scr (planAc live f scr as st) := by
  induction as generalizing st with
  | nil => exact hg
  | cons a rest ih =>
    unfold planAc
    exact ih _ (Good_consumeRangeAc live f scr _ (fun x hx => (scan_mem _ _ _ _ _ hx).1) 0 st hg)

theorem Good_planIds (live : List SEv) (f : FilterRec) (scr : EventRec → Screen) (ids : List Bytes)
    (st : FindState) (hg : Good live f scr st) : Good live f scr (planIds live f scr ids st) := by
  induction ids generalizing st with
  | nil => exact hg
  | cons id rest ih =>
    unfold planIds
    split
    · rename_i x hf
      have hx := (findById_some_mem _ _ _ hf).1
      obtain ⟨g1, g2⟩ := Good_accept_insert live f scr st x hx hg
      split
      · rename_i hok; exact ih _ (g2 hok)
      · exact ih _ g1
    · exact ih _ hg

/-- every plan keeps the invariant -/
theorem Good_findState (live : List SEv) (f : FilterRec) (allow : Bool) (l secs now : Nat)
    (scr : EventRec → Screen) (st : FindState) (h : findState live f allow l secs now scr = some st) :
    Good live f scr st := by
  have g0 := Good_init live f scr f.since
  have hscan : ∀ (p : EventRec → Bool) (a b : Nat), ∀ x ∈ scan live p a b, x ∈ live :=
    fun p a b x hx => (scan_mem _ _ _ _ _ hx).1
  unfold findState at h
  dsimp only at h
  repeat' split at h
  all_goals first
    | cases h
    | (simp only [Option.some.injEq] at h; subst h)
  · exact Good_planIds _ _ _ _ _ g0
  · refine Good_planRanges _ _ _ _ ?_ _ g0
    intro r hr n x hx
    simp only [akcRanges, List.mem_map] at hr
    obtain ⟨⟨a, k⟩, _, rfl⟩ := hr
    exact hscan _ _ _ x (by simpa [akcScan] using hx)
  · refine Good_planRanges _ _ _ _ ?_ _ g0
    intro r hr n x hx
    simp only [atcRanges, List.mem_map] at hr
    obtain ⟨⟨a, p⟩, _, rfl⟩ := hr
    exact hscan _ _ _ x (by simpa [atcScan] using hx)
  · refine Good_planRanges _ _ _ _ ?_ _ g0
    intro r hr n x hx
    simp only [ktcRanges, List.mem_map] at hr
    obtain ⟨⟨k, p⟩, _, rfl⟩ := hr
    exact hscan _ _ _ x (by simpa [ktcScan] using hx)
  · refine Good_planRanges _ _ _ _ ?_ _ g0
    intro r hr n x hx
    simp only [tcRanges, List.mem_map] at hr
    obtain ⟨p, _, rfl⟩ := hr
    exact hscan _ _ _ x (by simpa [tcScan] using hx)
  · exact Good_planAc _ _ _ _ _ g0
  · exact Good_consumeScrape _ _ _ _ (fun x hx => hscan _ _ _ x hx) _ g0

/-! ### the final ordering -/

theorem insertOutSorted_mem (x y : SEv) (l : List SEv) : y ∈ insertOutSorted x l ↔ y = x ∨ y ∈ l := by
  induction l with
  | nil => simp [insertOutSorted]
  | cons a l ih =>
    unfold insertOutSorted
    split
    · simp
    · simp only [List.mem_cons, ih]
      constructor
      · rintro (h | h | h)
        · exact Or.inr (Or.inl h)
        · exact Or.inl h
        · exact Or.inr (Or.inr h)
      · rintro (h | h | h)
        · exact Or.inr (Or.inl h)
        · exact Or.inl h
        · exact Or.inr (Or.inr h)

theorem sortOut_mem (l : List SEv) (y : SEv) : y ∈ sortOut l ↔ y ∈ l := by
  unfold sortOut
  induction l with
  | nil => simp
  | cons a l ih => simp only [List.foldr_cons, insertOutSorted_mem, ih, List.mem_cons]

theorem insertOutSorted_sorted (x : SEv) (l : List SEv)
    (h : l.Pairwise (fun a b => a.e.createdAt ≥ b.e.createdAt)) :
    (insertOutSorted x l).Pairwise (fun a b => a.e.createdAt ≥ b.e.createdAt) := by
  induction l with
  | nil => simp [insertOutSorted]
  | cons a l ih =>
    rw [List.pairwise_cons] at h
    unfold insertOutSorted
    split
    · rename_i hb
      rw [List.pairwise_cons]
      refine ⟨?_, List.pairwise_cons.mpr h⟩
      have hxa : x.e.createdAt ≥ a.e.createdAt := by
        unfold outBefore at hb
        simp only [Bool.or_eq_true, decide_eq_true_eq, Bool.and_eq_true, beq_iff_eq] at hb
        omega
      intro y hy
      rcases List.mem_cons.mp hy with rfl | hy
      · exact hxa
      · have := h.1 y hy; omega
    · rename_i hb
      have hax : a.e.createdAt ≥ x.e.createdAt := by
        unfold outBefore at hb
        simp only [Bool.or_eq_true, decide_eq_true_eq, Bool.and_eq_true, beq_iff_eq, not_or] at hb
        omega
      rw [List.pairwise_cons]
      refine ⟨?_, ih h.2⟩
      intro y hy
      rcases (insertOutSorted_mem x y l).mp hy with rfl | hy
      · exact hax
      · exact h.1 y hy

theorem sortOut_sorted (l : List SEv) : (sortOut l).Pairwise (fun a b => a.e.createdAt ≥ b.e.createdAt) := by
  unfold sortOut
  induction l with
  | nil => simp
  | cons a l ih => exact insertOutSorted_sorted a _ ih

theorem insertOutSorted_nodup (x : SEv) (l : List SEv) (h : l.Pairwise (fun a b => a.e.id ≠ b.e.id))
    (hx : ∀ y ∈ l, x.e.id ≠ y.e.id) : (insertOutSorted x l).Pairwise (fun a b => a.e.id ≠ b.e.id) := by
  induction l with
  | nil => simp [insertOutSorted]
  | cons a l ih =>
    rw [List.pairwise_cons] at h
    unfold insertOutSorted
    split
    · exact List.pairwise_cons.mpr ⟨hx, List.pairwise_cons.mpr h⟩
    · rw [List.pairwise_cons]
      refine ⟨?_, ih h.2 (fun y hy => hx y (by simp [hy]))⟩
      intro y hy
      rcases (insertOutSorted_mem x y l).mp hy with rfl | hy
      · exact fun hh => hx a (by simp) hh.symm
      · exact h.1 y hy

theorem sortOut_nodup (l : List SEv) (h : l.Pairwise (fun a b => a.e.id ≠ b.e.id)) :
    (sortOut l).Pairwise (fun a b => a.e.id ≠ b.e.id) := by
  unfold sortOut
  induction l with
  | nil => simp
  | cons a l ih =>
    rw [List.pairwise_cons] at h
    refine insertOutSorted_nodup a _ (ih h.2) ?_
    intro y hy
    have : y ∈ l := by
      have := (sortOut_mem l y).mp (by unfold sortOut; exact hy)
      exact this
    exact h.1 y this

end Pocket
