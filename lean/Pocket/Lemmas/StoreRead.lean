import Pocket.Lemmas.StoreInv
/- reading back: by offset and by id -/
namespace Pocket

theorem find_off_of_mem (log : List SEv) (x : SEv) (hs : log.Pairwise (fun a b => a.off < b.off))
    (hx : x ∈ log) : log.find? (fun y => y.off == x.off) = some x := by
  induction log with
  | nil => cases hx
  | cons y ys ih =>
    rw [List.pairwise_cons] at hs
    rcases List.mem_cons.mp hx with rfl | hm
    · simp [List.find?_cons]
    · have hlt := hs.1 x hm
      have : (y.off == x.off) = false := by simp; omega
      rw [List.find?_cons, this]
      exact ih hs.2 hm

/-- an event in the map reads back, by its offset, as itself -/
theorem getByOffset_of_mem (s : Store) (hi : Inv s) (x : SEv) (hx : x ∈ s.log) :
    getByOffset s x.off = some x.e := by
  unfold getByOffset
  have hb := hi.logBound x hx
  have hpos := eventLen_pos x.e
  have : ¬ x.off ≥ s.end := by omega
  simp only [this, if_false, find_off_of_mem s.log x hi.logSorted hx, Option.map_some]

theorem findById_of_mem (live : List SEv) (x : SEv) (hn : (live.map (·.e.id)).Nodup) (hx : x ∈ live) :
    findById live x.e.id = some x := by
  unfold findById
  induction live with
  | nil => cases hx
  | cons y ys ih =>
    simp only [List.map_cons, List.nodup_cons] at hn
    rcases List.mem_cons.mp hx with rfl | hm
    · simp [List.find?_cons]
    · have hne : y.e.id ≠ x.e.id := by
        intro h; apply hn.1; rw [h]; exact List.mem_map.mpr ⟨x, hm, rfl⟩
      have : (y.e.id == x.e.id) = false := by simp [hne]
      rw [List.find?_cons, this]
      exact ih hn.2 hm

/-- a retrievable event reads back, by its id, as itself -/
theorem getById_of_mem (s : Store) (hi : Inv s) (x : SEv) (hx : x ∈ s.db.live) :
    getById s x.e.id = some x.e := by
  unfold getById
  rw [findById_of_mem _ x hi.liveIds hx]; rfl

theorem findById_some_mem (live : List SEv) (id : Bytes) (x : SEv) (h : findById live id = some x) :
    x ∈ live ∧ x.e.id = id := by
  unfold findById at h
  have h1 := List.mem_of_find?_eq_some h
  have h2 := List.find?_some h
  exact ⟨h1, by simpa using h2⟩

/-- the log of the current map file is never shortened by store / remove / vanish / reopen -/
def NoRebuild : List Op → Prop
  | [] => True
  | .rebuild :: _ => False
  | _ :: ops => NoRebuild ops

theorem step_log_mono (s : Store) (op : Op) (hop : ∀ (h : op = .rebuild), False) (x : SEv) (hx : x ∈ s.log) :
    x ∈ (step s op).log := by
  cases op with
  | store e =>
    rcases storeEvent_log s e with ⟨h, _⟩ | ⟨h, _⟩
    · simp only [step]; rw [h]; exact hx
    · simp only [step]; rw [h]; exact List.mem_append_left _ hx
  | remove id => exact hx
  | vanish pk => exact hx
  | reopen => exact hx
  | rebuild => exact absurd rfl (fun h => hop h)

theorem run_log_mono (s : Store) (ops : List Op) (hno : NoRebuild ops) (x : SEv) (hx : x ∈ s.log) :
    x ∈ (run s ops).log := by
  induction ops generalizing s with
  | nil => exact hx
  | cons op ops ih =>
    cases op with
    | rebuild => exact absurd hno (by simp [NoRebuild])
    | store e => exact ih _ (by simpa [NoRebuild] using hno) (step_log_mono s _ (by intro h; cases h) x hx)
    | remove id => exact ih _ (by simpa [NoRebuild] using hno) (step_log_mono s _ (by intro h; cases h) x hx)
    | vanish pk => exact ih _ (by simpa [NoRebuild] using hno) (step_log_mono s _ (by intro h; cases h) x hx)
    | reopen => exact ih _ (by simpa [NoRebuild] using hno) (step_log_mono s _ (by intro h; cases h) x hx)

end Pocket
