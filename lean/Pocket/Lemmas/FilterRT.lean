import Pocket.Lemmas.RoundTrip
import Pocket.Lemmas.ListAux
/- `Filter::from_json ∘ Filter::as_json = id` (C07): the JSON text `as_json` writes for a filter
whose tag constraints are named by distinct letters parses back to exactly the bytes `from_parts`
writes for that filter. -/
namespace Pocket

/-! ### pieces of the text -/

theorem skipToBracket_no93 (a : Bytes) (h : ∀ b ∈ a, b ≠ 93) (R : Bytes) :
    skipToBracket (a ++ 93 :: R) = 93 :: R := by
  induction a with
  | nil => simp [skipToBracket]
  | cons b a ih =>
    have hb := h b (by simp)
    simp only [List.cons_append, skipToBracket, hb, if_false]
    exact ih (fun x hx => h x (by simp [hx]))

theorem hexDigitLower_ne (d : Nat) (h : d < 16) : hexDigitLower d ≠ 93 ∧ hexDigitLower d ≠ 44 ∧ hexDigitLower d ≠ 32 := by
  unfold hexDigitLower; split <;> omega

theorem hexOf_no93 (v : Bytes) : ∀ b ∈ hexOf v, b ≠ 93 := by
  induction v with
  | nil => intro b hb; cases hb
  | cons x v ih =>
    intro b hb
    simp only [hexOf, List.mem_cons] at hb
    rcases hb with rfl | rfl | hb
    · exact (hexDigitLower_ne _ (Nat.mod_lt _ (by omega))).1
    · exact (hexDigitLower_ne _ (Nat.mod_lt _ (by omega))).1
    · exact ih b hb

theorem idsJson_no93 (l : List Bytes) (first : Bool) : ∀ b ∈ idsJson l first, b ≠ 93 := by
  induction l generalizing first with
  | nil => intro b hb; cases hb
  | cons x l ih =>
    intro b hb
    simp only [idsJson, List.mem_append, List.mem_cons, List.not_mem_nil, or_false] at hb
    rcases hb with ((((hb | hb) | hb) | hb) | hb)
    · split at hb
      · cases hb
      · simp at hb; omega
    · omega
    · exact hexOf_no93 x b hb
    · omega
    · exact ih false b hb

theorem decDigits_digits (f n : Nat) : ∀ b ∈ decDigits f n, 48 ≤ b ∧ b ≤ 57 := by
  induction f generalizing n with
  | zero => intro b hb; cases hb
  | succ f ih =>
    intro b hb
    unfold decDigits at hb
    split at hb
    · simp at hb; omega
    · simp only [List.mem_append, List.mem_singleton] at hb
      rcases hb with hb | hb
      · exact ih _ b hb
      · omega

theorem kindsJson_no93 (l : List Nat) (first : Bool) : ∀ b ∈ kindsJson l first, b ≠ 93 := by
  induction l generalizing first with
  | nil => intro b hb; cases hb
  | cons k l ih =>
    intro b hb
    simp only [kindsJson, List.mem_append] at hb
    rcases hb with ((hb | hb) | hb)
    · split at hb
      · cases hb
      · simp at hb; omega
    · have := decDigits_digits _ _ b hb; omega
    · exact ih false b hb

theorem eatWsC_keep (b : Nat) (r : Bytes) (h1 : isWs b = false) (h2 : b ≠ 44) : eatWsC (b :: r) = b :: r := by
  have : (b == 44) = false := by simpa using h2
  simp [eatWsC, h1, this]

theorem eatWsC_sep (first : Bool) (b : Nat) (r : Bytes) (h1 : isWs b = false) (h2 : b ≠ 44) :
    eatWsC ((if first then [] else [44]) ++ b :: r) = b :: r := by
  cases first
  · simp only [Bool.false_eq_true, if_false, List.cons_append, List.nil_append]
    rw [show eatWsC (44 :: b :: r) = eatWsC (b :: r) from by simp [eatWsC]]
    exact eatWsC_keep b r h1 h2
  · simpa using eatWsC_keep b r h1 h2

/-- the second pass over an `ids` / `authors` array -/
theorem copyHex32_idsJson (l : List Bytes) (hl : ∀ x ∈ l, x.length = 32 ∧ ∀ b ∈ x, b < 256) (first : Bool)
    (R : Bytes) (endPos cap n : Nat) (hcap : endPos + 32 * l.length ≤ cap) (hn : n + l.length ≤ 65535)
    (fuel : Nat) (hf : l.length + 1 ≤ fuel) :
    copyHex32 fuel (idsJson l first ++ 93 :: R) endPos cap n = .ok l := by
  induction l generalizing first endPos n fuel with
  | nil =>
    obtain ⟨f, rfl⟩ : ∃ f, fuel = f + 1 := ⟨fuel - 1, by omega⟩
    simp [idsJson, copyHex32, eatWsC, isWs]
  | cons x l ih =>
    obtain ⟨f, rfl⟩ : ∃ f, fuel = f + 1 := ⟨fuel - 1, by omega⟩
    obtain ⟨hx1, hx2⟩ := hl x (by simp)
    simp only [List.length_cons] at hcap hn hf
    have hshape : idsJson (x :: l) first ++ 93 :: R =
        (if first then [] else [44]) ++ 34 :: (hexOf x ++ 34 :: (idsJson l false ++ 93 :: R)) := by
      simp [idsJson]
    rw [hshape]
    have hws : eatWsC ((if first then [] else [44]) ++ 34 :: (hexOf x ++ 34 :: (idsJson l false ++ 93 :: R))) =
        34 :: (hexOf x ++ 34 :: (idsJson l false ++ 93 :: R)) := by
      cases first <;> simp [eatWsC, isWs]
    have ih' := ih (fun y hy => hl y (by simp [hy])) false (endPos + 32) (n + 1) (by omega) (by omega) f (by omega)
    unfold copyHex32
    rw [hws]
    simp only [show (34 : Nat) ≠ 93 from by decide, if_false]
    rw [if_neg (by omega), if_neg (by omega), readHexField_hexOf 32 x _ hx1 hx2]
    simp only []
    rw [if_neg (by omega), ih']

theorem noLeadingDigit_of (b : Nat) (r : Bytes) (h : isDigit b = false) : NoLeadingDigit (b :: r) := by
  intro b' r' h'; simp only [List.cons.injEq] at h'; rw [← h'.1]; exact h

theorem kindsJson_head (l : List Nat) (R : Bytes) :
    ∃ b r, kindsJson l false ++ 93 :: R = b :: r ∧ (b = 44 ∨ b = 93) := by
  cases l with
  | nil => exact ⟨93, R, by simp [kindsJson], Or.inr rfl⟩
  | cons k l => exact ⟨44, _, by simp [kindsJson]; rfl, Or.inl rfl⟩

/-- the second pass over a `kinds` array -/
theorem copyKinds_kindsJson (l : List Nat) (hl : ∀ k ∈ l, k < 65536) (first : Bool)
    (R : Bytes) (endPos cap n : Nat) (hcap : endPos + 2 * l.length ≤ cap) (hn : n + l.length ≤ 65535)
    (fuel : Nat) (hf : l.length + 1 ≤ fuel) :
    copyKinds fuel (kindsJson l first ++ 93 :: R) endPos cap n = .ok l := by
  induction l generalizing first endPos n fuel with
  | nil =>
    obtain ⟨f, rfl⟩ : ∃ f, fuel = f + 1 := ⟨fuel - 1, by omega⟩
    simp [kindsJson, copyKinds, eatWsC, isWs]
  | cons k l ih =>
    obtain ⟨f, rfl⟩ : ∃ f, fuel = f + 1 := ⟨fuel - 1, by omega⟩
    have hk := hl k (by simp)
    simp only [List.length_cons] at hcap hn hf
    obtain ⟨d, ds, hd, hd1, hd2⟩ := decDigits_head (k + 1) k (by omega)
    obtain ⟨b, r, hbr, hb⟩ := kindsJson_head l R
    have hshape : kindsJson (k :: l) first ++ 93 :: R =
        (if first then [] else [44]) ++ (decOf k ++ (kindsJson l false ++ 93 :: R)) := by
      simp [kindsJson]
    rw [hshape]
    have hws : eatWsC ((if first then [] else [44]) ++ (decOf k ++ (kindsJson l false ++ 93 :: R))) =
        decOf k ++ (kindsJson l false ++ 93 :: R) := by
      have hnw : isWs d = false := by unfold isWs; simp; omega
      unfold decOf
      rw [hd]
      exact eatWsC_sep first d _ hnw (by omega)
    have hru := readU64_decOf k (kindsJson l false ++ 93 :: R) (by omega)
      (by rw [hbr]; exact noLeadingDigit_of b r (by rcases hb with rfl | rfl <;> decide))
    have ih' := ih (fun y hy => hl y (by simp [hy])) false (endPos + 2) (n + 1) (by omega) (by omega) f (by omega)
    unfold copyKinds
    rw [hws]
    have hhead : decOf k ++ (kindsJson l false ++ 93 :: R) = d :: (ds ++ (kindsJson l false ++ 93 :: R)) := by
      unfold decOf; rw [hd]; rfl
    rw [hhead]
    simp only [show d ≠ 93 from by omega, if_false]
    rw [← hhead, hru]
    simp only []
    rw [if_neg (by omega), if_neg (by omega), if_neg (by omega), ih']

/-! ### tag constraints -/

theorem ftagValuesJson_cons_inv (v : Bytes) (vs : List Bytes) (first : Bool) (txt : Bytes)
    (h : ftagValuesJson (v :: vs) first = .ok txt) :
    ∃ e r, jsonEscape v = .ok e ∧ ftagValuesJson vs false = .ok r ∧
      txt = (if first then [] else [44]) ++ [34] ++ e ++ [34] ++ r := by
  unfold ftagValuesJson at h
  split at h
  · rename_i e r he hr
    simp only [Outcome.ok.injEq] at h
    exact ⟨e, r, he, hr, h.symm⟩
  · cases h
  · cases h
  · cases h

theorem ftagValuesJson_ok (vs : List Bytes) (hu : ∀ v ∈ vs, IsUtf8 v) (first : Bool) :
    ∃ txt, ftagValuesJson vs first = .ok txt := by
  induction vs generalizing first with
  | nil => exact ⟨[], rfl⟩
  | cons v vs ih =>
    obtain ⟨e, he⟩ := IsUtf8_escape v (hu v (by simp))
    obtain ⟨r, hr⟩ := ih (fun x hx => hu x (by simp [hx])) false
    simp only [ftagValuesJson, he, hr]
    exact ⟨_, rfl⟩

theorem ftagValuesJson_length (vs : List Bytes) (first : Bool) (txt : Bytes)
    (h : ftagValuesJson vs first = .ok txt) : vs.length ≤ txt.length := by
  induction vs generalizing first txt with
  | nil => simp
  | cons v vs ih =>
    obtain ⟨e, r, _, hr, rfl⟩ := ftagValuesJson_cons_inv v vs first txt h
    have := ih false r hr
    simp; omega

/-- the first pass skips the value array of a tag constraint -/
theorem burnArray_values (vs : List Bytes) (hu : ∀ v ∈ vs, IsUtf8 v) (first : Bool) (vj R : Bytes)
    (h : ftagValuesJson vs first = .ok vj) (fuel : Nat) (hf : vs.length + 1 ≤ fuel) :
    burnArray fuel (vj ++ 93 :: R) 0 = .ok R := by
  induction vs generalizing first vj fuel with
  | nil =>
    obtain ⟨f, rfl⟩ : ∃ f, fuel = f + 1 := ⟨fuel - 1, by omega⟩
    simp only [ftagValuesJson, Outcome.ok.injEq] at h
    subst h
    simp [burnArray, eatWsC, isWs]
  | cons v vs ih =>
    obtain ⟨f, rfl⟩ : ∃ f, fuel = f + 2 := ⟨fuel - 2, by simp at hf; omega⟩
    obtain ⟨e, r, he, hr, rfl⟩ := ftagValuesJson_cons_inv v vs first vj h
    have hshape : ((if first then [] else [44]) ++ [34] ++ e ++ [34] ++ r) ++ 93 :: R =
        (if first then [] else [44]) ++ 34 :: (e ++ 34 :: (r ++ 93 :: R)) := by simp
    rw [hshape]
    have hws := eatWsC_sep first 34 (e ++ 34 :: (r ++ 93 :: R)) (by decide) (by decide)
    have hb := burnString_escape v e (r ++ 93 :: R) (hu v (by simp)) he
    have ih' := ih (fun x hx => hu x (by simp [hx])) false r hr (f + 1) (by simp at hf; omega)
    unfold burnArray
    rw [hws]
    simp only [show (34 : Nat) ≠ 93 from by decide, if_false]
    unfold burnValue
    simp only [MAX_BURN_DEPTH, show ¬ (0 + 1 > 64) from by omega, if_false, if_true, hb]
    exact ih'

/-- the second pass over the values of one tag constraint -/
theorem copyTagValues_values (vs : List Bytes) (hu : ∀ v ∈ vs, IsUtf8 v) (first : Bool) (vj R : Bytes)
    (h : ftagValuesJson vs first = .ok vj) (endPos cap count : Nat)
    (hcap : endPos + strsSize vs ≤ cap) (hn : count + vs.length ≤ 65535)
    (fuel : Nat) (hf : vs.length + 1 ≤ fuel) :
    copyTagValues fuel (vj ++ 93 :: R) endPos cap count = .ok vs := by
  induction vs generalizing first vj endPos count fuel with
  | nil =>
    obtain ⟨f, rfl⟩ : ∃ f, fuel = f + 1 := ⟨fuel - 1, by omega⟩
    simp only [ftagValuesJson, Outcome.ok.injEq] at h
    subst h
    simp [copyTagValues, eatWsC, isWs]
  | cons v vs ih =>
    obtain ⟨f, rfl⟩ : ∃ f, fuel = f + 1 := ⟨fuel - 1, by omega⟩
    obtain ⟨e, r, he, hr, rfl⟩ := ftagValuesJson_cons_inv v vs first vj h
    have hshape : ((if first then [] else [44]) ++ [34] ++ e ++ [34] ++ r) ++ 93 :: R =
        (if first then [] else [44]) ++ 34 :: (e ++ 34 :: (r ++ 93 :: R)) := by simp
    rw [hshape]
    simp only [strsSize, List.length_cons] at hcap hn hf
    have hws := eatWsC_sep first 34 (e ++ 34 :: (r ++ 93 :: R)) (by decide) (by decide)
    have hun := unescape_escape v e (r ++ 93 :: R) (cap - (endPos + 2)) (hu v (by simp)) he (by omega)
    have ih' := ih (fun x hx => hu x (by simp [hx])) false r hr (endPos + 2 + v.length) (count + 1)
      (by omega) (by omega) f (by omega)
    unfold copyTagValues
    rw [hws]
    simp only [show (34 : Nat) ≠ 93 from by decide, if_false, verifyChar, if_true]
    rw [if_neg (by omega), hun]
    simp only []
    rw [if_neg (by omega), drop_len_succ, ih']

theorem eatColon_plain (b : Nat) (r : Bytes) (hb : isWs b = false) :
    eatColon (58 :: b :: r) = .ok (b :: r) := by
  have h58 : eatWs (58 :: b :: r) = 58 :: b :: r := eatWs_nonws 58 _ (by decide)
  have hbb : eatWs (b :: r) = b :: r := eatWs_nonws b r hb
  unfold eatColon
  rw [h58]
  simp only [verifyChar, if_true, hbb]

/-- one tag constraint `"#l":[values]`, from the position saved by the first pass -/
theorem copyTagField_member (l : Nat) (vs : List Bytes) (hu : ∀ v ∈ vs, IsUtf8 v) (vj R : Bytes)
    (h : ftagValuesJson vs true = .ok vj) (endPos cap : Nat)
    (hcap : endPos + tagSize ([l] :: vs) ≤ cap) (hn : vs.length + 1 ≤ 65535) :
    copyTagField (l, 34 :: 58 :: 91 :: (vj ++ 93 :: R)) endPos cap = .ok ([l] :: vs) := by
  simp only [tagSize, strsSize, List.length_cons, List.length_nil] at hcap
  have hlen := ftagValuesJson_length vs true vj h
  have hv := copyTagValues_values vs hu true vj R h (endPos + 5) cap 1 (by omega) (by omega)
    ((vj ++ 93 :: R).length + 1) (by simp; omega)
  unfold copyTagField
  simp only []
  rw [if_neg (by omega), if_neg (by omega)]
  simp only [verifyChar, if_true]
  rw [eatColon_plain 91 _ (by decide)]
  simp only [verifyChar, if_true, hv]

/-! ### the first pass, member by member -/

/-- one iteration of the member loop on a member that starts (after an optional comma) with `"` -/
theorem flLoop_step (f : Nat) (st : FlSt) (first : Bool) (body : Bytes) :
    flLoop (f + 1) st ((if first then [] else [44]) ++ 34 :: body) =
      match flMember st (34 :: body) with
      | .ok (st', r) => flLoop f st' r
      | .err => .err
      | .panic => .panic := by
  rw [flLoop, eatWsC_sep first 34 body (by decide) (by decide)]
  simp only [show (34 : Nat) ≠ 125 from by decide, if_false]
  cases flMember st (34 :: body) with
  | ok x => rfl
  | err => rfl
  | panic => rfl

/-- the text after a member starts with something that is not a digit -/
def HeadOk (X : Bytes) : Prop := ∃ b r, X = b :: r ∧ isDigit b = false

theorem flMember_ids (st : FlSt) (l : List Bytes) (R : Bytes) (h0 : st.startIds = none) :
    flMember st (34 :: 105 :: 100 :: 115 :: 34 :: 58 :: 91 :: (idsJson l true ++ 93 :: R)) =
      .ok ({ st with startIds := some (idsJson l true ++ 93 :: R) }, R) := by
  have hs := skipToBracket_no93 (idsJson l true) (idsJson_no93 l true) R
  simp [flMember, verifyChar, startsWith, kIds, h0, eatColon_plain 91 _ (by decide), flArrayField, hs]

theorem flMember_authors (st : FlSt) (l : List Bytes) (R : Bytes) (h0 : st.startAuthors = none) :
    flMember st (34 :: 97 :: 117 :: 116 :: 104 :: 111 :: 114 :: 115 :: 34 :: 58 :: 91 :: (idsJson l true ++ 93 :: R)) =
      .ok ({ st with startAuthors := some (idsJson l true ++ 93 :: R) }, R) := by
  have hs := skipToBracket_no93 (idsJson l true) (idsJson_no93 l true) R
  simp [flMember, verifyChar, startsWith, kIds, kAuthors, h0, eatColon_plain 91 _ (by decide), flArrayField, hs]

theorem flMember_kinds (st : FlSt) (l : List Nat) (R : Bytes) (h0 : st.startKinds = none) :
    flMember st (34 :: 107 :: 105 :: 110 :: 100 :: 115 :: 34 :: 58 :: 91 :: (kindsJson l true ++ 93 :: R)) =
      .ok ({ st with startKinds := some (kindsJson l true ++ 93 :: R) }, R) := by
  have hs := skipToBracket_no93 (kindsJson l true) (kindsJson_no93 l true) R
  simp [flMember, verifyChar, startsWith, kIds, kAuthors, kKinds, h0, eatColon_plain 91 _ (by decide), flArrayField, hs]

theorem eatColon_dec (n : Nat) (X : Bytes) : eatColon (58 :: (decOf n ++ X)) = .ok (decOf n ++ X) := by
  obtain ⟨d, ds, h, h1, h2⟩ := decDigits_head (n + 1) n (by omega)
  have : decOf n ++ X = d :: (ds ++ X) := by unfold decOf; rw [h]; rfl
  rw [this]
  exact eatColon_plain d _ (by unfold isWs; simp; omega)

theorem flMember_since (st : FlSt) (n : Nat) (X : Bytes) (h0 : st.since = none) (hn : n < 18446744073709551616)
    (hX : HeadOk X) :
    flMember st (34 :: 115 :: 105 :: 110 :: 99 :: 101 :: 34 :: 58 :: (decOf n ++ X)) =
      .ok ({ st with since := some n }, X) := by
  obtain ⟨b, r, rfl, hb⟩ := hX
  have hr := readU64_decOf n (b :: r) hn (noLeadingDigit_of b r hb)
  simp [flMember, verifyChar, startsWith, kIds, kAuthors, kKinds, kSince, h0, eatColon_dec, hr]

theorem flMember_until (st : FlSt) (n : Nat) (X : Bytes) (h0 : st.until = none) (hn : n < 18446744073709551616)
    (hX : HeadOk X) :
    flMember st (34 :: 117 :: 110 :: 116 :: 105 :: 108 :: 34 :: 58 :: (decOf n ++ X)) =
      .ok ({ st with «until» := some n }, X) := by
  obtain ⟨b, r, rfl, hb⟩ := hX
  have hr := readU64_decOf n (b :: r) hn (noLeadingDigit_of b r hb)
  simp [flMember, verifyChar, startsWith, kIds, kAuthors, kKinds, kSince, kUntil, h0, eatColon_dec, hr]

theorem flMember_limit (st : FlSt) (n : Nat) (X : Bytes) (h0 : st.limit = none) (hn : n ≤ 4294967295)
    (hX : HeadOk X) :
    flMember st (34 :: 108 :: 105 :: 109 :: 105 :: 116 :: 34 :: 58 :: (decOf n ++ X)) =
      .ok ({ st with limit := some n }, X) := by
  obtain ⟨b, r, rfl, hb⟩ := hX
  have hr := readU64_decOf n (b :: r) (by omega) (noLeadingDigit_of b r hb)
  have hle : ¬ n > U32MAX := by unfold U32MAX; omega
  simp [flMember, verifyChar, startsWith, kIds, kAuthors, kKinds, kSince, kUntil, kLimit, h0, eatColon_dec, hr, hle]

theorem flMember_tag (st : FlSt) (l : Nat) (vs : List Bytes) (hu : ∀ v ∈ vs, IsUtf8 v) (vj R : Bytes)
    (hv : ftagValuesJson vs true = .ok vj) (hl : isLetter l = true) (h32 : st.tagStarts.length < 52)
    (hnew : l ∉ st.letters) :
    flMember st (34 :: 35 :: l :: 34 :: 58 :: 91 :: (vj ++ 93 :: R)) =
      .ok ({ st with tagStarts := st.tagStarts ++ [(l, 34 :: 58 :: 91 :: (vj ++ 93 :: R))],
                     letters := l :: st.letters }, R) := by
  have hlen := ftagValuesJson_length vs true vj hv
  have hb := burnArray_values vs hu true vj R hv (burnFuel (vj ++ 93 :: R)) (by unfold burnFuel; simp; omega)
  have h32' : ¬ st.tagStarts.length ≥ 52 := by omega
  simp [flMember, verifyChar, startsWith, kIds, kAuthors, kKinds, kSince, kUntil, kLimit, hl, h32', hnew,
    eatColon_plain 91 _ (by decide), hb]

/-- a member that the loop accepts: one iteration, and enough fuel remains for what follows -/
theorem seg (st st' : FlSt) (first : Bool) (body X : Bytes)
    (hm : flMember st (34 :: (body ++ X)) = .ok (st', X)) (fuel : Nat)
    (hf : (((if first then [] else [44]) ++ 34 :: body) ++ X).length + 1 ≤ fuel) :
    ∃ fuel', X.length + 1 ≤ fuel' ∧
      flLoop fuel st (((if first then [] else [44]) ++ 34 :: body) ++ X) = flLoop fuel' st' X := by
  obtain ⟨f, rfl⟩ : ∃ f, fuel = f + 1 := ⟨fuel - 1, by omega⟩
  refine ⟨f, ?_, ?_⟩
  · simp only [List.length_append, List.length_cons] at hf; omega
  · have : ((if first then [] else [44]) ++ 34 :: body) ++ X = (if first then [] else [44]) ++ 34 :: (body ++ X) := by simp
    rw [this, flLoop_step, hm]

/-! ### the tag constraints of a canonical filter -/

/-- `[letter] :: values` with a letter name and UTF-8 values -/
def FTagOk (t : List Bytes) : Prop :=
  ∃ l vs, t = [l] :: vs ∧ isLetter l = true ∧ (∀ v ∈ vs, IsUtf8 v) ∧ vs.length + 1 ≤ 65535

def tagLetter (t : List Bytes) : Nat :=
  match t with
  | (l :: _) :: _ => l
  | _ => 0

/-- the positions the first pass saved are those of the filter's tag constraints, in order -/
def StartsFor : List (Nat × Bytes) → TagsRec → Prop
  | [], [] => True
  | s :: ss, t :: ts =>
    (∃ l vs vj R, t = [l] :: vs ∧ s = (l, 34 :: 58 :: 91 :: (vj ++ 93 :: R)) ∧
      ftagValuesJson vs true = .ok vj) ∧ StartsFor ss ts
  | _, _ => False

theorem jsonEscape_letter (l : Nat) (hl : isLetter l = true) : jsonEscape [l] = .ok [l] := by
  have h1 : l < 128 := by unfold isLetter at hl; simp at hl; omega
  have h2 : isSafeChar l = true := by
    unfold isLetter at hl; unfold isSafeChar; simp at hl ⊢; omega
  simp [jsonEscape, jsonEscapeF, nextCodePoint, h1, h2]

theorem ftagsJson_cons_inv (l : Nat) (vs : List Bytes) (ts : TagsRec) (first : Bool) (p : Bytes) (f' : Bool)
    (hl : isLetter l = true) (h : ftagsJson (([l] :: vs) :: ts) first = .ok (p, f')) :
    ∃ vj r, ftagValuesJson vs true = .ok vj ∧ ftagsJson ts false = .ok (r, f') ∧
      p = ((if first then [] else [44]) ++ 34 :: (35 :: l :: 34 :: 58 :: 91 :: (vj ++ [93]))) ++ r := by
  unfold ftagsJson at h
  simp only [jsonEscape_letter l hl] at h
  split at h
  · rename_i en vj r f'' he hv hr
    simp only [Outcome.ok.injEq, Prod.mk.injEq] at h he
    subst he
    obtain ⟨rfl, rfl⟩ := h
    exact ⟨vj, r, hv, hr, by simp⟩
  · cases h
  · cases h
  · cases h
  · cases h

theorem ftagsJson_length (ts : TagsRec) (hok : ∀ t ∈ ts, FTagOk t) (first : Bool) (p : Bytes) (f' : Bool)
    (h : ftagsJson ts first = .ok (p, f')) : ts.length ≤ p.length := by
  induction ts generalizing first p with
  | nil => simp
  | cons t ts ih =>
    obtain ⟨l, vs, rfl, hl, _, _⟩ := hok t (by simp)
    obtain ⟨vj, r, _, hr, rfl⟩ := ftagsJson_cons_inv l vs ts first p f' hl h
    have := ih (fun t' ht' => hok t' (by simp [ht'])) false r hr
    simp; omega

/-- the first pass over all tag constraints -/
theorem seg_tags (ts : TagsRec) (hok : ∀ t ∈ ts, FTagOk t) (hnd : (ts.map tagLetter).Nodup)
    (st : FlSt) (hnew : ∀ t ∈ ts, tagLetter t ∉ st.letters) (h32 : st.tagStarts.length + ts.length ≤ 52)
    (first : Bool) (p : Bytes) (f' : Bool) (h : ftagsJson ts first = .ok (p, f')) (X : Bytes)
    (fuel : Nat) (hf : (p ++ X).length + 1 ≤ fuel) :
    ∃ fuel' starts L, X.length + 1 ≤ fuel' ∧ StartsFor starts ts ∧
      flLoop fuel st (p ++ X) =
        flLoop fuel' { st with tagStarts := st.tagStarts ++ starts, letters := L } X := by
  induction ts generalizing st first p fuel with
  | nil =>
    simp only [ftagsJson, Outcome.ok.injEq, Prod.mk.injEq] at h
    obtain ⟨rfl, _⟩ := h
    refine ⟨fuel, [], st.letters, by simpa using hf, trivial, ?_⟩
    simp
  | cons t ts ih =>
    obtain ⟨l, vs, rfl, hl, hu, _⟩ := hok t (by simp)
    obtain ⟨vj, r, hv, hr, rfl⟩ := ftagsJson_cons_inv l vs ts first p f' hl h
    have hnew0 : l ∉ st.letters := by simpa [tagLetter] using hnew ([l] :: vs) (by simp)
    simp only [List.map_cons, List.nodup_cons, tagLetter] at hnd
    have hm := flMember_tag st l vs hu vj (r ++ X) hv hl (by simp at h32; omega) hnew0
    have hre : 35 :: l :: 34 :: 58 :: 91 :: (vj ++ [93]) ++ (r ++ X) = 35 :: l :: 34 :: 58 :: 91 :: (vj ++ 93 :: (r ++ X)) := by simp
    obtain ⟨f1, hf1, hstep⟩ := seg st _ first (35 :: l :: 34 :: 58 :: 91 :: (vj ++ [93])) (r ++ X)
      (by rw [hre]; exact hm) fuel (by simpa [List.append_assoc] using hf)
    obtain ⟨f2, starts, L, hf2, hsf, hloop⟩ := ih (fun t' ht' => hok t' (by simp [ht'])) hnd.2
      { st with tagStarts := st.tagStarts ++ [(l, 34 :: 58 :: 91 :: (vj ++ 93 :: (r ++ X)))], letters := l :: st.letters }
      (by
        intro t' ht'
        simp only [List.mem_cons, not_or]
        refine ⟨?_, hnew t' (by simp [ht'])⟩
        intro heq
        exact hnd.1 (List.mem_map.mpr ⟨t', ht', heq⟩))
      (by simp at h32 ⊢; omega) false r hr f1 hf1
    refine ⟨f2, (l, 34 :: 58 :: 91 :: (vj ++ 93 :: (r ++ X))) :: starts, L, hf2, ⟨⟨l, vs, vj, r ++ X, rfl, rfl, hv⟩, hsf⟩, ?_⟩
    rw [List.append_assoc, hstep, hloop]
    simp

/-! ### the second pass over the saved tag positions -/

theorem le16_mod (p : Nat) : le16 (p % 65536) = le16 p := by
  unfold le16; congr 1
  · omega
  · congr 1; omega

theorem copyTagFields_starts (starts : List (Nat × Bytes)) (ts : TagsRec) (hs : StartsFor starts ts)
    (hok : ∀ t ∈ ts, FTagOk t) (w wts endPos cap : Nat) (hge : wts ≤ endPos)
    (hcap : endPos + tagsBodySize ts ≤ cap) (hwc : wts + 4 + 2 * (w + ts.length) ≤ cap) :
    ∃ offs, copyTagFields starts w wts endPos cap = .ok (offs, ts) ∧
      encOffList offs = encOffsets (endPos - wts) ts := by
  induction ts generalizing starts w endPos with
  | nil =>
    cases starts with
    | nil => exact ⟨[], rfl, rfl⟩
    | cons s ss => exact absurd hs (by simp [StartsFor])
  | cons t ts ih =>
    cases starts with
    | nil => exact absurd hs (by simp [StartsFor])
    | cons s ss =>
      obtain ⟨⟨l, vs, vj, R, rfl, rfl, hv⟩, hss⟩ := hs
      obtain ⟨l', vs', heq, _, hu, hn⟩ := hok _ (List.mem_cons_self)
      simp only [List.cons.injEq] at heq
      obtain ⟨⟨rfl, _⟩, rfl⟩ := heq
      simp only [tagsBodySize, List.length_cons] at hcap hwc
      have hf := copyTagField_member l vs hu vj R hv endPos cap (by omega) hn
      obtain ⟨offs, hrec, henc⟩ := ih ss hss (fun t' ht' => hok t' (by simp [ht'])) (w + 1)
        (endPos + tagSize ([l] :: vs)) (by omega) (by omega) (by omega)
      refine ⟨(endPos - wts) % 65536 :: offs, ?_, ?_⟩
      · unfold copyTagFields
        rw [if_neg (by omega), hf]
        simp only [hrec]
      · simp only [encOffList, encOffsets, le16_mod, henc]
        congr 2
        omega

theorem idsJson_length (l : List Bytes) (first : Bool) : l.length ≤ (idsJson l first).length := by
  induction l generalizing first with
  | nil => simp
  | cons x l ih => have := ih false; simp [idsJson]; omega

theorem kindsJson_length (l : List Nat) (first : Bool) : l.length ≤ (kindsJson l first).length := by
  induction l generalizing first with
  | nil => simp
  | cons k l ih =>
    have := ih false
    obtain ⟨d, ds, hd, _, _⟩ := decDigits_head (k + 1) k (by omega)
    simp [kindsJson, decOf, hd]; omega

/-! ### the whole filter -/

/-- a filter as `parse_json_filter` can produce it: sized fields, and tag constraints named by at
distinct letters (hence at most 52) with UTF-8 values -/
structure FilterCanon (f : FilterRec) : Prop where
  sized : FilterSized f
  idb : ∀ x ∈ f.ids, ∀ b ∈ x, b < 256
  aub : ∀ x ∈ f.authors, ∀ b ∈ x, b < 256
  tagsOk : ∀ t ∈ f.tags, FTagOk t
  letters : (f.tags.map tagLetter).Nodup

theorem headOk_piece (c first : Bool) (body X : Bytes) (hX : HeadOk X) :
    HeadOk ((if c then [] else (if first then [] else [44]) ++ 34 :: body) ++ X) := by
  cases c
  · cases first
    · exact ⟨44, 34 :: (body ++ X), by simp, by decide⟩
    · exact ⟨34, body ++ X, by simp, by decide⟩
  · simpa using hX

/-- an optional member -/
theorem optseg (c : Bool) (st st' : FlSt) (first : Bool) (body X : Bytes)
    (hm : c = false → flMember st (34 :: (body ++ X)) = .ok (st', X)) (hst : c = true → st' = st)
    (fuel : Nat)
    (hf : ((if c then [] else (if first then [] else [44]) ++ 34 :: body) ++ X).length + 1 ≤ fuel) :
    ∃ fuel', X.length + 1 ≤ fuel' ∧
      flLoop fuel st ((if c then [] else (if first then [] else [44]) ++ 34 :: body) ++ X) = flLoop fuel' st' X := by
  cases c
  · simp only [Bool.false_eq_true, if_false] at hf ⊢
    exact seg st st' first body X (hm rfl) fuel hf
  · simp only [if_true, List.nil_append] at hf ⊢
    rw [hst rfl]
    exact ⟨fuel, hf, rfl⟩

theorem flLoop_end (fuel : Nat) (st : FlSt) (rest : Bytes) (hf : 1 ≤ fuel) :
    flLoop fuel st (125 :: rest) = .ok (st, rest) := by
  obtain ⟨f, rfl⟩ : ∃ f, fuel = f + 1 := ⟨fuel - 1, by omega⟩
  simp [flLoop, eatWsC, isWs]

theorem encodeFilter_length (f : FilterRec) (hs : FilterSized f) :
    (encodeFilter f).length = filterSize f.ids.length f.authors.length f.kinds.length (tagsSize f.tags) := by
  simp [encodeFilter, encodeFilterWith, flat32_length f.ids hs.ids, flat32_length f.authors hs.authors,
    flatKinds_length, encodeTags_length, filterSize]; omega

/-- an optional member of the text: nothing, or (comma) `"` body -/
def optPiece (c first : Bool) (body : Bytes) : Bytes :=
  if c then [] else (if first then [] else [44]) ++ 34 :: body

theorem optseg' (c : Bool) (st st' : FlSt) (first : Bool) (body X X' : Bytes)
    (hX' : X' = optPiece c first body ++ X)
    (hm : c = false → flMember st (34 :: (body ++ X)) = .ok (st', X)) (hst : c = true → st' = st)
    (fuel : Nat) (hf : X'.length + 1 ≤ fuel) :
    ∃ fuel', X.length + 1 ≤ fuel' ∧ flLoop fuel st X' = flLoop fuel' st' X := by
  subst hX'
  unfold optPiece at hf ⊢
  exact optseg c st st' first body X hm hst fuel hf

/-- the text `as_json` writes, as the sequence of optional members the parser walks -/
theorem filterJson_shape (f : FilterRec) (txt : Bytes) (ht : filterJson f = .ok txt) :
    ∃ p4 first4, ftagsJson f.tags (f.ids.isEmpty && f.authors.isEmpty && f.kinds.isEmpty) = .ok (p4, first4) ∧
    ∃ s2 s3 s5 s6 s7 : Bool,
      txt = 123 :: (optPiece f.ids.isEmpty true (105 :: 100 :: 115 :: 34 :: 58 :: 91 :: (idsJson f.ids true ++ [93])) ++
        (optPiece f.authors.isEmpty s2 (97 :: 117 :: 116 :: 104 :: 111 :: 114 :: 115 :: 34 :: 58 :: 91 :: (idsJson f.authors true ++ [93])) ++
        (optPiece f.kinds.isEmpty s3 (107 :: 105 :: 110 :: 100 :: 115 :: 34 :: 58 :: 91 :: (kindsJson f.kinds true ++ [93])) ++
        (p4 ++
        (optPiece (decide (f.limit = U32MAX)) s5 (108 :: 105 :: 109 :: 105 :: 116 :: 34 :: 58 :: decOf f.limit) ++
        (optPiece (decide (f.since = 0)) s6 (115 :: 105 :: 110 :: 99 :: 101 :: 34 :: 58 :: decOf f.since) ++
        (optPiece (decide (f.until = U64MAX)) s7 (117 :: 110 :: 116 :: 105 :: 108 :: 34 :: 58 :: decOf f.until) ++ [125]))))))) := by
  unfold filterJson at ht
  dsimp only at ht
  split at ht
  · rename_i p4 first4 htags
    simp only [Outcome.ok.injEq] at ht
    refine ⟨p4, first4, htags, f.ids.isEmpty, f.ids.isEmpty && f.authors.isEmpty, first4,
      first4 && decide (f.limit = U32MAX), first4 && decide (f.limit = U32MAX) && decide (f.since = 0), ?_⟩
    subst ht
    unfold optPiece
    cases f.ids.isEmpty <;> cases f.authors.isEmpty <;> cases f.kinds.isEmpty <;>
      by_cases h5 : f.limit = U32MAX <;> by_cases h6 : f.since = 0 <;> by_cases h7 : f.until = U64MAX <;>
      simp [h5, h6, h7]
  · cases ht
  · cases ht

theorem StartsFor_length (starts : List (Nat × Bytes)) (ts : TagsRec) (h : StartsFor starts ts) :
    starts.length = ts.length := by
  induction ts generalizing starts with
  | nil => cases starts with
    | nil => rfl
    | cons s ss => exact absurd h (by simp [StartsFor])
  | cons t ts ih => cases starts with
    | nil => exact absurd h (by simp [StartsFor])
    | cons s ss => simp [ih ss h.2]

/-- **`Filter::from_json ∘ Filter::as_json`**: for every canonical filter the text `as_json` writes
parses back — with anything after it, into any sufficient buffer whatever it held — to exactly the
bytes `from_parts` writes for that filter, consuming exactly the text -/
theorem parseFilter_filterJson (f : FilterRec) (hc : FilterCanon f) (txt : Bytes)
    (ht : filterJson f = .ok txt) (rest buf : Bytes) (hbuf : (encodeFilter f).length ≤ buf.length) :
    parseFilter (txt ++ rest) buf =
      .ok (txt.length, (encodeFilter f).length, encodeFilter f ++ buf.drop (encodeFilter f).length) := by
  obtain ⟨hs, hidb, haub, htok, hlet⟩ := hc
  have h32 : f.tags.length ≤ 52 := by
    have := letters_le_52 (f.tags.map tagLetter) hlet (by
      intro l hl
      obtain ⟨t, ht, rfl⟩ := List.mem_map.mp hl
      obtain ⟨l', vs, rfl, hl', _, _⟩ := htok t ht
      exact hl')
    simpa using this
  have hlenF := encodeFilter_length f hs
  rw [hlenF] at hbuf ⊢
  unfold filterSize at hbuf
  have htsz : 4 ≤ tagsSize f.tags := by unfold tagsSize; omega
  obtain ⟨p4, first4, htags, s2, s3, s5, s6, s7, rfl⟩ := filterJson_shape f txt ht
  -- the suffixes the member loop sees
  obtain ⟨X7, hX7⟩ : ∃ x, x = 125 :: rest := ⟨_, rfl⟩
  obtain ⟨X6, hX6⟩ : ∃ x, x = optPiece (decide (f.until = U64MAX)) s7 (117 :: 110 :: 116 :: 105 :: 108 :: 34 :: 58 :: decOf f.until) ++ X7 := ⟨_, rfl⟩
  obtain ⟨X5, hX5⟩ : ∃ x, x = optPiece (decide (f.since = 0)) s6 (115 :: 105 :: 110 :: 99 :: 101 :: 34 :: 58 :: decOf f.since) ++ X6 := ⟨_, rfl⟩
  obtain ⟨X4, hX4⟩ : ∃ x, x = optPiece (decide (f.limit = U32MAX)) s5 (108 :: 105 :: 109 :: 105 :: 116 :: 34 :: 58 :: decOf f.limit) ++ X5 := ⟨_, rfl⟩
  obtain ⟨X3, hX3⟩ : ∃ x, x = p4 ++ X4 := ⟨_, rfl⟩
  obtain ⟨X2, hX2⟩ : ∃ x, x = optPiece f.kinds.isEmpty s3 (107 :: 105 :: 110 :: 100 :: 115 :: 34 :: 58 :: 91 :: (kindsJson f.kinds true ++ [93])) ++ X3 := ⟨_, rfl⟩
  obtain ⟨X1, hX1⟩ : ∃ x, x = optPiece f.authors.isEmpty s2 (97 :: 117 :: 116 :: 104 :: 111 :: 114 :: 115 :: 34 :: 58 :: 91 :: (idsJson f.authors true ++ [93])) ++ X2 := ⟨_, rfl⟩
  obtain ⟨X0, hX0⟩ : ∃ x, x = optPiece f.ids.isEmpty true (105 :: 100 :: 115 :: 34 :: 58 :: 91 :: (idsJson f.ids true ++ [93])) ++ X1 := ⟨_, rfl⟩
  have hshape : (123 :: (optPiece f.ids.isEmpty true (105 :: 100 :: 115 :: 34 :: 58 :: 91 :: (idsJson f.ids true ++ [93])) ++
        (optPiece f.authors.isEmpty s2 (97 :: 117 :: 116 :: 104 :: 111 :: 114 :: 115 :: 34 :: 58 :: 91 :: (idsJson f.authors true ++ [93])) ++
        (optPiece f.kinds.isEmpty s3 (107 :: 105 :: 110 :: 100 :: 115 :: 34 :: 58 :: 91 :: (kindsJson f.kinds true ++ [93])) ++
        (p4 ++
        (optPiece (decide (f.limit = U32MAX)) s5 (108 :: 105 :: 109 :: 105 :: 116 :: 34 :: 58 :: decOf f.limit) ++
        (optPiece (decide (f.since = 0)) s6 (115 :: 105 :: 110 :: 99 :: 101 :: 34 :: 58 :: decOf f.since) ++
        (optPiece (decide (f.until = U64MAX)) s7 (117 :: 110 :: 116 :: 105 :: 108 :: 34 :: 58 :: decOf f.until) ++ [125])))))))) ++ rest
      = 123 :: X0 := by
    subst hX0 hX1 hX2 hX3 hX4 hX5 hX6 hX7
    simp
  have hlenT : (123 :: (optPiece f.ids.isEmpty true (105 :: 100 :: 115 :: 34 :: 58 :: 91 :: (idsJson f.ids true ++ [93])) ++
        (optPiece f.authors.isEmpty s2 (97 :: 117 :: 116 :: 104 :: 111 :: 114 :: 115 :: 34 :: 58 :: 91 :: (idsJson f.authors true ++ [93])) ++
        (optPiece f.kinds.isEmpty s3 (107 :: 105 :: 110 :: 100 :: 115 :: 34 :: 58 :: 91 :: (kindsJson f.kinds true ++ [93])) ++
        (p4 ++
        (optPiece (decide (f.limit = U32MAX)) s5 (108 :: 105 :: 109 :: 105 :: 116 :: 34 :: 58 :: decOf f.limit) ++
        (optPiece (decide (f.since = 0)) s6 (115 :: 105 :: 110 :: 99 :: 101 :: 34 :: 58 :: decOf f.since) ++
        (optPiece (decide (f.until = U64MAX)) s7 (117 :: 110 :: 116 :: 105 :: 108 :: 34 :: 58 :: decOf f.until) ++ [125])))))))).length + rest.length
      = (123 :: X0).length := by
    have := congrArg List.length hshape
    rw [List.length_append] at this
    exact this
  -- what follows a number is never a digit
  have hk7 : HeadOk X7 := ⟨125, rest, hX7, by decide⟩
  have hk6 : HeadOk X6 := by rw [hX6]; exact headOk_piece _ _ _ _ hk7
  have hk5 : HeadOk X5 := by rw [hX5]; exact headOk_piece _ _ _ _ hk6
  -- the states after each member
  obtain ⟨v1, hv1⟩ : ∃ v : Option Bytes, v = if f.ids.isEmpty then none else some (idsJson f.ids true ++ 93 :: X1) := ⟨_, rfl⟩
  obtain ⟨v2, hv2⟩ : ∃ v : Option Bytes, v = if f.authors.isEmpty then none else some (idsJson f.authors true ++ 93 :: X2) := ⟨_, rfl⟩
  obtain ⟨v3, hv3⟩ : ∃ v : Option Bytes, v = if f.kinds.isEmpty then none else some (kindsJson f.kinds true ++ 93 :: X3) := ⟨_, rfl⟩
  obtain ⟨v5, hv5⟩ : ∃ v : Option Nat, v = if decide (f.limit = U32MAX) then none else some f.limit := ⟨_, rfl⟩
  obtain ⟨v6, hv6⟩ : ∃ v : Option Nat, v = if decide (f.since = 0) then none else some f.since := ⟨_, rfl⟩
  obtain ⟨v7, hv7⟩ : ∃ v : Option Nat, v = if decide (f.until = U64MAX) then none else some f.until := ⟨_, rfl⟩
  -- pass 1
  obtain ⟨f1, hf1, e1⟩ := optseg' f.ids.isEmpty {} { startIds := v1 } true
    (105 :: 100 :: 115 :: 34 :: 58 :: 91 :: (idsJson f.ids true ++ [93])) X1 X0 hX0
    (by intro hcf
        have := flMember_ids {} f.ids X1 rfl
        simp only [List.cons_append, List.append_assoc, List.nil_append] at this ⊢
        rw [this, hv1, hcf]; rfl)
    (by intro hct; rw [hv1, hct]; rfl)
    (X0.length + 1) (Nat.le_refl _)
  obtain ⟨f2, hf2, e2⟩ := optseg' f.authors.isEmpty { startIds := v1 } { startIds := v1, startAuthors := v2 } s2
    (97 :: 117 :: 116 :: 104 :: 111 :: 114 :: 115 :: 34 :: 58 :: 91 :: (idsJson f.authors true ++ [93])) X2 X1 hX1
    (by intro hcf
        have := flMember_authors { startIds := v1 } f.authors X2 rfl
        simp only [List.cons_append, List.append_assoc, List.nil_append] at this ⊢
        rw [this, hv2, hcf]; rfl)
    (by intro hct; rw [hv2, hct]; rfl)
    f1 hf1
  obtain ⟨f3, hf3, e3⟩ := optseg' f.kinds.isEmpty { startIds := v1, startAuthors := v2 }
    { startIds := v1, startAuthors := v2, startKinds := v3 } s3
    (107 :: 105 :: 110 :: 100 :: 115 :: 34 :: 58 :: 91 :: (kindsJson f.kinds true ++ [93])) X3 X2 hX2
    (by intro hcf
        have := flMember_kinds { startIds := v1, startAuthors := v2 } f.kinds X3 rfl
        simp only [List.cons_append, List.append_assoc, List.nil_append] at this ⊢
        rw [this, hv3, hcf]; rfl)
    (by intro hct; rw [hv3, hct]; rfl)
    f2 hf2
  obtain ⟨f4, starts, L, hf4, hstarts, e4⟩ := seg_tags f.tags htok hlet
    { startIds := v1, startAuthors := v2, startKinds := v3 }
    (by intro t _; simp) (by simpa using h32) _ p4 first4 htags X4 f3 (by rw [hX3] at hf3; exact hf3)
  obtain ⟨f5, hf5, e5⟩ := optseg' (decide (f.limit = U32MAX))
    { startIds := v1, startAuthors := v2, startKinds := v3, tagStarts := [] ++ starts, letters := L }
    { startIds := v1, startAuthors := v2, startKinds := v3, limit := v5, tagStarts := [] ++ starts, letters := L } s5
    (108 :: 105 :: 109 :: 105 :: 116 :: 34 :: 58 :: decOf f.limit) X5 X4 hX4
    (by intro hcf
        have := flMember_limit { startIds := v1, startAuthors := v2, startKinds := v3, tagStarts := [] ++ starts, letters := L }
          f.limit X5 rfl (by have := hs.limit; omega) hk5
        simp only [List.cons_append, List.append_assoc, List.nil_append] at this ⊢
        rw [this, hv5, hcf]; rfl)
    (by intro hct; rw [hv5, hct]; rfl)
    f4 hf4
  obtain ⟨f6, hf6, e6⟩ := optseg' (decide (f.since = 0))
    { startIds := v1, startAuthors := v2, startKinds := v3, limit := v5, tagStarts := [] ++ starts, letters := L }
    { startIds := v1, startAuthors := v2, startKinds := v3, since := v6, limit := v5, tagStarts := [] ++ starts, letters := L } s6
    (115 :: 105 :: 110 :: 99 :: 101 :: 34 :: 58 :: decOf f.since) X6 X5 hX5
    (by intro hcf
        have := flMember_since { startIds := v1, startAuthors := v2, startKinds := v3, limit := v5, tagStarts := [] ++ starts, letters := L }
          f.since X6 rfl hs.since hk6
        simp only [List.cons_append, List.append_assoc, List.nil_append] at this ⊢
        rw [this, hv6, hcf]; rfl)
    (by intro hct; rw [hv6, hct]; rfl)
    f5 hf5
  obtain ⟨f7, hf7, e7⟩ := optseg' (decide (f.until = U64MAX))
    { startIds := v1, startAuthors := v2, startKinds := v3, since := v6, limit := v5, tagStarts := [] ++ starts, letters := L }
    { startIds := v1, startAuthors := v2, startKinds := v3, since := v6, «until» := v7, limit := v5, tagStarts := [] ++ starts, letters := L } s7
    (117 :: 110 :: 116 :: 105 :: 108 :: 34 :: 58 :: decOf f.until) X7 X6 hX6
    (by intro hcf
        have := flMember_until { startIds := v1, startAuthors := v2, startKinds := v3, since := v6, limit := v5, tagStarts := [] ++ starts, letters := L }
          f.until X7 rfl hs.until hk7
        simp only [List.cons_append, List.append_assoc, List.nil_append] at this ⊢
        rw [this, hv7, hcf]; rfl)
    (by intro hct; rw [hv7, hct]; rfl)
    f6 hf6
  have hloop : flLoop (X0.length + 1) {} X0 =
      .ok ({ startIds := v1, startAuthors := v2, startKinds := v3, since := v6, «until» := v7, limit := v5,
             tagStarts := [] ++ starts, letters := L }, rest) := by
    rw [e1, e2, e3]
    have e4' := e4
    rw [← hX3] at e4'
    rw [e4', e5, e6, e7, hX7]
    exact flLoop_end f7 _ rest (by omega)
  -- pass 2
  have hnI := hs.nIds
  have hnA := hs.nAuthors
  have hnK := hs.nKinds
  have hTs := hs.tags
  have c1 : copyOpt32 v1 32 buf.length = .ok f.ids := by
    rw [hv1]
    cases hI : f.ids.isEmpty
    · have hl := idsJson_length f.ids true
      simp only [Bool.false_eq_true, if_false, copyOpt32]
      exact copyHex32_idsJson f.ids (fun x hx => ⟨hs.ids x hx, hidb x hx⟩) true X1 32 buf.length 0 (by omega) (by omega) _
        (by simp only [List.length_append, List.length_cons]; omega)
    · have : f.ids = [] := List.isEmpty_iff.mp hI
      simp [copyOpt32, this]
  have c2 : copyOpt32 v2 (32 + 32 * f.ids.length) buf.length = .ok f.authors := by
    rw [hv2]
    cases hI : f.authors.isEmpty
    · have hl := idsJson_length f.authors true
      simp only [Bool.false_eq_true, if_false, copyOpt32]
      exact copyHex32_idsJson f.authors (fun x hx => ⟨hs.authors x hx, haub x hx⟩) true X2 _ buf.length 0 (by omega) (by omega) _
        (by simp only [List.length_append, List.length_cons]; omega)
    · have : f.authors = [] := List.isEmpty_iff.mp hI
      simp [copyOpt32, this]
  have c3 : copyOptKinds v3 (32 + 32 * f.ids.length + 32 * f.authors.length) buf.length = .ok f.kinds := by
    rw [hv3]
    cases hI : f.kinds.isEmpty
    · have hl := kindsJson_length f.kinds true
      simp only [Bool.false_eq_true, if_false, copyOptKinds]
      exact copyKinds_kindsJson f.kinds hs.kinds true X3 _ buf.length 0 (by omega) (by omega) _
        (by simp only [List.length_append, List.length_cons]; omega)
    · have : f.kinds = [] := List.isEmpty_iff.mp hI
      simp [copyOptKinds, this]
  have hsl := StartsFor_length starts f.tags hstarts
  have htb : tagsSize f.tags = 4 + 2 * f.tags.length + tagsBodySize f.tags := rfl
  obtain ⟨offs, c4, hoffs⟩ := copyTagFields_starts starts f.tags hstarts htok 0
    (32 + 32 * f.ids.length + 32 * f.authors.length + 2 * f.kinds.length)
    (32 + 32 * f.ids.length + 32 * f.authors.length + 2 * f.kinds.length + 4 + 2 * f.tags.length) buf.length
    (by omega) (by omega) (by omega)
  have g5 : v5.getD U32MAX = f.limit := by
    rw [hv5]; by_cases h : f.limit = U32MAX <;> simp [h]
  have g6 : v6.getD 0 = f.since := by
    rw [hv6]; by_cases h : f.since = 0 <;> simp [h]
  have g7 : v7.getD U64MAX = f.until := by
    rw [hv7]; by_cases h : f.until = U64MAX <;> simp [h]
  have l7 : X7.length = rest.length + 1 := by rw [hX7]; simp
  have l6 : X7.length ≤ X6.length := by rw [hX6]; simp
  have l5 : X6.length ≤ X5.length := by rw [hX5]; simp
  have l4 : X5.length ≤ X4.length := by rw [hX4]; simp
  have l3 : X4.length ≤ X3.length := by rw [hX3]; simp
  have l2 : X3.length ≤ X2.length := by rw [hX2]; simp
  have l1 : X2.length ≤ X1.length := by rw [hX1]; simp
  have l0 : X1.length ≤ X0.length := by rw [hX0]; simp
  rw [hshape]
  unfold parseFilter
  simp only []
  rw [if_neg (by simp only [List.length_cons]; omega), if_neg (by omega)]
  rw [show eatWs (123 :: X0) = 123 :: X0 from by simp [eatWs, isWs]]
  simp only [verifyChar, if_true]
  rw [hloop]
  simp only [c1]
  simp only [c2]
  simp only [c3]
  rw [if_neg (by omega)]
  simp only [List.nil_append, hsl]
  rw [c4]
  simp only []
  rw [if_neg (by omega), if_neg (by unfold U32MAX; omega)]
  have hsub : 32 + 32 * f.ids.length + 32 * f.authors.length + 2 * f.kinds.length + 4 + 2 * f.tags.length -
      (32 + 32 * f.ids.length + 32 * f.authors.length + 2 * f.kinds.length) = 4 + 2 * f.tags.length := by omega
  rw [hsub] at hoffs
  have henc : le16 (4 + 2 * f.tags.length + tagsBodySize f.tags) ++ le16 f.tags.length ++ encOffList offs ++ encTagsBody f.tags
      = encodeTags f.tags := by
    rw [hoffs]; rfl
  rw [henc, g5, g6, g7]
  have hfin : encodeFilterWith f.ids f.authors f.kinds (encodeTags f.tags) f.since f.until f.limit = encodeFilter f := rfl
  rw [hfin, hlenF]
  simp only [filterSize, List.length_cons] at *
  congr 2
  omega

theorem ftagsJson_ok (ts : TagsRec) (hok : ∀ t ∈ ts, FTagOk t) (first : Bool) :
    ∃ p f', ftagsJson ts first = .ok (p, f') := by
  induction ts generalizing first with
  | nil => exact ⟨[], first, rfl⟩
  | cons t ts ih =>
    obtain ⟨l, vs, rfl, hl, hu, _⟩ := hok t (by simp)
    obtain ⟨vj, hvj⟩ := ftagValuesJson_ok vs hu true
    obtain ⟨r, f', hr⟩ := ih (fun t' ht' => hok t' (by simp [ht'])) false
    simp only [ftagsJson, jsonEscape_letter l hl, hvj, hr]
    exact ⟨_, _, rfl⟩

theorem filterJson_ok (f : FilterRec) (hc : FilterCanon f) : ∃ txt, filterJson f = .ok txt := by
  obtain ⟨p, f', hp⟩ := ftagsJson_ok f.tags hc.tagsOk (f.ids.isEmpty && f.authors.isEmpty && f.kinds.isEmpty)
  unfold filterJson
  simp only [hp]
  exact ⟨_, rfl⟩

end Pocket
