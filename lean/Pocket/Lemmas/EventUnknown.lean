import Pocket.Lemmas.EventOrder
/- `Event::from_json` with additional unknown members (C01): the seven NIP-01 members in any order
(values as `as_json` renders them) interleaved with any number of unknown members `"key" : value` whose
value is ANY JSON value nested at most 64 deep and whose key is any JSON string other than the seven
names, with any whitespace at every token boundary — accepted with exactly the event's values. -/
namespace Pocket

def knownEKeys : List Bytes :=
  [[105, 100], [115, 105, 103], [107, 105, 110, 100], [116, 97, 103, 115], [112, 117, 98, 107, 101, 121],
   [99, 111, 110, 116, 101, 110, 116], [99, 114, 101, 97, 116, 101, 100, 95, 97, 116]]

/-- a member of the text: one of the seven, or an unknown one -/
inductive ESpec where
  | known (x : MemSpec)
  | unknown (w0 k w1 w2 v w3 : Bytes)

def ESpec.w0 : ESpec → Bytes
  | .known x => x.w0
  | .unknown w0 _ _ _ _ _ => w0

def ESpec.w3 : ESpec → Bytes
  | .known x => x.w3
  | .unknown _ _ _ _ _ w3 => w3

def ESpec.mem? : ESpec → Option EMem
  | .known x => some x.m
  | .unknown _ _ _ _ _ _ => none

/-- `"key" ws : ws value` -/
def ESpec.body (e : EventRec) (tj ec : Bytes) : ESpec → Bytes
  | .known x => memText e tj ec x.m x.w1 x.w2
  | .unknown _ k w1 w2 v _ => 34 :: (k ++ 34 :: (w1 ++ 58 :: (w2 ++ v)))

def ESpec.WsOk : ESpec → Prop
  | .known x => x.WsOk
  | .unknown w0 k w1 w2 v w3 => AllWs w0 ∧ AllWs w1 ∧ AllWs w2 ∧ AllWs w3 ∧ StrBody k ∧ k ∉ knownEKeys ∧
      ∃ d, d ≤ 64 ∧ JT .val d v

theorem ESpec.w0_ws {x : ESpec} (h : x.WsOk) : AllWs x.w0 := by
  cases x with
  | known x => exact h.1
  | unknown => exact h.1

theorem ESpec.w3_ws {x : ESpec} (h : x.WsOk) : AllWs x.w3 := by
  cases x with
  | known x => exact h.2.2.2
  | unknown => exact h.2.2.2.1

theorem ESpec.body_head (e : EventRec) (tj ec : Bytes) (x : ESpec) : ∃ y, x.body e tj ec = 34 :: y := by
  cases x <;> exact ⟨_, rfl⟩

theorem headNotNum_sep (w3 : Bytes) (last : Bool) (X : Bytes) (h : AllWs w3) : HeadNotNum (Sep w3 last X) := by
  unfold Sep
  intro b r hbr
  cases w3 with
  | nil =>
    simp only [List.nil_append, List.cons.injEq] at hbr
    obtain ⟨rfl, _⟩ := hbr
    cases last <;> decide
  | cons c w =>
    simp only [List.cons_append, List.cons.injEq] at hbr
    obtain ⟨rfl, _⟩ := hbr
    have hc := h c (by simp)
    unfold isWs at hc
    simp only [Bool.or_eq_true, beq_iff_eq] at hc
    rcases hc with ((rfl | rfl) | rfl) | rfl <;> decide

/-- an unknown member leaves the parser state as it is -/
theorem evMember_unknown (st : EvSt) (cap : Nat) (k w1 w2 v after : Bytes) (hk : StrBody k) (hnk : k ∉ knownEKeys)
    (h1 : AllWs w1) (h2 : AllWs w2) (d : Nat) (hd : d ≤ 64) (hv : JT .val d v) (hafter : HeadNotNum after) :
    evMember st (34 :: (k ++ 34 :: (w1 ++ 58 :: (w2 ++ v))) ++ after) cap = .ok (st, after) := by
  simp only [knownEKeys, List.mem_cons, List.not_mem_nil, or_false, not_or] at hnk
  obtain ⟨n1, n2, n3, n4, n5, n6, n7⟩ := hnk
  have hshape : 34 :: (k ++ 34 :: (w1 ++ 58 :: (w2 ++ v))) ++ after = 34 :: (k ++ 34 :: (w1 ++ 58 :: (w2 ++ (v ++ after)))) := by
    simp
  rw [hshape]
  have s1 := startsWith_other_key [105, 100] k (w1 ++ 58 :: (w2 ++ (v ++ after))) (by decide) hk n1
  have s2 := startsWith_other_key [115, 105, 103] k (w1 ++ 58 :: (w2 ++ (v ++ after))) (by decide) hk n2
  have s3 := startsWith_other_key [107, 105, 110, 100] k (w1 ++ 58 :: (w2 ++ (v ++ after))) (by decide) hk n3
  have s4 := startsWith_other_key [116, 97, 103, 115] k (w1 ++ 58 :: (w2 ++ (v ++ after))) (by decide) hk n4
  have s5 := startsWith_other_key [112, 117, 98, 107, 101, 121] k (w1 ++ 58 :: (w2 ++ (v ++ after))) (by decide) hk n5
  have s6 := startsWith_other_key [99, 111, 110, 116, 101, 110, 116] k (w1 ++ 58 :: (w2 ++ (v ++ after))) (by decide) hk n6
  have s7 := startsWith_other_key [99, 114, 101, 97, 116, 101, 100, 95, 97, 116] k (w1 ++ 58 :: (w2 ++ (v ++ after))) (by decide) hk n7
  have hb := burnKeyValue_json d k w1 w2 v after hk h1 h2 hv (by unfold MAX_BURN_DEPTH; omega) hafter
  unfold evMember
  simp only [verifyChar, if_true]
  have e1 : startsWith kId (k ++ 34 :: (w1 ++ 58 :: (w2 ++ (v ++ after)))) = false := s1
  have e2 : startsWith kSig (k ++ 34 :: (w1 ++ 58 :: (w2 ++ (v ++ after)))) = false := s2
  have e3 : startsWith kKind (k ++ 34 :: (w1 ++ 58 :: (w2 ++ (v ++ after)))) = false := s3
  have e4 : startsWith kTags (k ++ 34 :: (w1 ++ 58 :: (w2 ++ (v ++ after)))) = false := s4
  have e5 : startsWith kPubkey (k ++ 34 :: (w1 ++ 58 :: (w2 ++ (v ++ after)))) = false := s5
  have e6 : startsWith kContent (k ++ 34 :: (w1 ++ 58 :: (w2 ++ (v ++ after)))) = false := s6
  have e7 : startsWith kCreatedAt (k ++ 34 :: (w1 ++ 58 :: (w2 ++ (v ++ after)))) = false := s7
  simp only [e1, e2, e3, e4, e5, e6, e7, Bool.false_eq_true, if_false, hb]

def optCons (o : Option EMem) (l : List EMem) : List EMem :=
  match o with
  | some m => m :: l
  | none => l

/-- one member of either kind, whatever follows (whitespace, then `,` or `}`) -/
theorem espec_step (e : EventRec) (tj ec : Bytes) (cap : Nat) (hc : ECtx e tj ec cap) (x : ESpec) (hw : x.WsOk)
    (seen : List EMem) (st : EvSt) (hinv : SeenInv e ec seen st) (hnew : ∀ m, x.mem? = some m → m ∉ seen)
    (last : Bool) (X : Bytes) :
    ∃ st', evMember st (x.body e tj ec ++ Sep x.w3 last X) cap = .ok (st', Sep x.w3 last X) ∧
      SeenInv e ec (optCons x.mem? seen) st' := by
  cases x with
  | known y =>
    obtain ⟨_, hw1, hw2, hw3⟩ := hw
    have hxnew := hnew y.m rfl
    have hfresh := SeenInv_fresh e ec seen st hinv y.m hxnew
    have hok := SeenInv_ok e ec seen st hinv
    exact ⟨_, evMember_mem e tj ec cap hc st hok y.m hfresh y.w1 y.w2 hw1 hw2 (Sep y.w3 last X)
      (noLeadingDigit_sep y.w3 last X hw3), SeenInv_step e ec seen st hinv y.m hxnew _⟩
  | unknown w0 k w1 w2 v w3 =>
    obtain ⟨_, hw1, hw2, hw3, hk, hnk, d, hd, hv⟩ := hw
    exact ⟨st, evMember_unknown st cap k w1 w2 v _ hk hnk hw1 hw2 d hd hv (headNotNum_sep w3 last X hw3), hinv⟩

/-- the text of an event object after its `{`: the members in the given order, `}` after the last -/
def evTextU (e : EventRec) (tj ec : Bytes) : List ESpec → Bytes → Bytes
  | [], R => R
  | [x], R => x.w0 ++ (x.body e tj ec ++ Sep x.w3 true R)
  | x :: y :: ms, R => x.w0 ++ (x.body e tj ec ++ Sep x.w3 false (evTextU e tj ec (y :: ms) R))

def seenOf : List ESpec → List EMem → List EMem
  | [], s => s
  | x :: xs, s => seenOf xs (optCons x.mem? s)

theorem mem_seenOf (ms : List ESpec) (s : List EMem) (m : EMem) :
    m ∈ seenOf ms s ↔ m ∈ ms.filterMap ESpec.mem? ∨ m ∈ s := by
  induction ms generalizing s with
  | nil => simp [seenOf]
  | cons x xs ih =>
    simp only [seenOf, ih]
    cases hx : x.mem? with
    | none => simp [List.filterMap_cons, hx, optCons]
    | some m' =>
      simp only [List.filterMap_cons, hx, optCons, List.mem_cons]
      constructor
      · rintro (h | h | h)
        · exact Or.inl (Or.inr h)
        · exact Or.inl (Or.inl h)
        · exact Or.inr h
      · rintro ((h | h) | h)
        · exact Or.inr (Or.inl h)
        · exact Or.inl h
        · exact Or.inr (Or.inr h)

/-- the member loop accepts the members, known and unknown, in any order -/
theorem evLoop_memsU (e : EventRec) (tj ec : Bytes) (cap : Nat) (hc : ECtx e tj ec cap)
    (ms : List ESpec) (hne : ms ≠ []) (hws : ∀ x ∈ ms, x.WsOk) (hnd : (ms.filterMap ESpec.mem?).Nodup)
    (seen : List EMem) (st : EvSt) (hinv : SeenInv e ec seen st) (hnew : ∀ m ∈ ms.filterMap ESpec.mem?, m ∉ seen)
    (R : Bytes) (fuel : Nat) (hf : ms.length ≤ fuel) :
    ∃ st', evLoop fuel st (evTextU e tj ec ms R) cap = .ok (st', R) ∧ SeenInv e ec (seenOf ms seen) st' := by
  induction ms generalizing seen st fuel with
  | nil => exact absurd rfl hne
  | cons x rest ih =>
    obtain ⟨f, rfl⟩ : ∃ f, fuel = f + 1 := ⟨fuel - 1, by simp at hf; omega⟩
    have hwx := hws x (by simp)
    have hxnew : ∀ m, x.mem? = some m → m ∉ seen := by
      intro m hm
      exact hnew m (by simp [List.filterMap_cons, hm])
    obtain ⟨y, hy⟩ := x.body_head e tj ec
    cases rest with
    | nil =>
      obtain ⟨st', hmem, hi⟩ := espec_step e tj ec cap hc x hwx seen st hinv hxnew true R
      have hws' : eatWs (x.w0 ++ (x.body e tj ec ++ Sep x.w3 true R)) = x.body e tj ec ++ Sep x.w3 true R := by
        rw [hy]; exact eatWs_ws_keep x.w0 34 _ (ESpec.w0_ws hwx) (by decide)
      refine ⟨st', ?_, by simpa [seenOf] using hi⟩
      simp only [evTextU]
      unfold evLoop
      rw [hws', hmem]
      simp only [nextObjectField_sep x.w3 true R (ESpec.w3_ws hwx)]
    | cons z ms =>
      obtain ⟨st1, hmem, hi⟩ := espec_step e tj ec cap hc x hwx seen st hinv hxnew false (evTextU e tj ec (z :: ms) R)
      have hws' : eatWs (x.w0 ++ (x.body e tj ec ++ Sep x.w3 false (evTextU e tj ec (z :: ms) R))) =
          x.body e tj ec ++ Sep x.w3 false (evTextU e tj ec (z :: ms) R) := by
        rw [hy]; exact eatWs_ws_keep x.w0 34 _ (ESpec.w0_ws hwx) (by decide)
      have hnd' : ((z :: ms).filterMap ESpec.mem?).Nodup := by
        cases hx : x.mem? with
        | none => simpa [List.filterMap_cons, hx] using hnd
        | some m => simp only [List.filterMap_cons, hx, List.nodup_cons] at hnd; exact hnd.2
      obtain ⟨st', hl, hi'⟩ := ih (by simp) (fun w hw => hws w (by simp [hw])) hnd' (optCons x.mem? seen) st1 hi
        (by
          intro m hm
          cases hx : x.mem? with
          | none =>
            simp only [optCons]
            exact hnew m (by simpa [List.filterMap_cons, hx] using hm)
          | some m' =>
            simp only [optCons, List.mem_cons, not_or]
            refine ⟨?_, hnew m (by simp only [List.filterMap_cons, hx, List.mem_cons]; exact Or.inr hm)⟩
            intro heq
            simp only [List.filterMap_cons, hx, List.nodup_cons] at hnd
            exact hnd.1 (heq ▸ hm))
        f (by simp at hf ⊢; omega)
      refine ⟨st', ?_, by simpa [seenOf] using hi'⟩
      simp only [evTextU]
      unfold evLoop
      rw [hws', hmem]
      simp only [nextObjectField_sep x.w3 false _ (ESpec.w3_ws hwx)]
      exact hl

theorem evTextU_length_ge (e : EventRec) (tj ec : Bytes) (ms : List ESpec) (R : Bytes) :
    ((ms.filterMap ESpec.mem?).map (fun m => (valOf e tj ec m).length)).sum ≤ (evTextU e tj ec ms R).length := by
  have hb : ∀ x : ESpec, (match x.mem? with | some m => (valOf e tj ec m).length | none => 0) ≤ (x.body e tj ec).length := by
    intro x
    cases x with
    | known y => simp [ESpec.mem?, ESpec.body, memText]; omega
    | unknown => simp [ESpec.mem?]
  induction ms with
  | nil => simp
  | cons x rest ih =>
    have hx := hb x
    cases rest with
    | nil =>
      cases hm : x.mem? with
      | none => simp [List.filterMap_cons, hm]
      | some m =>
        simp only [hm] at hx
        simp only [List.filterMap_cons, hm, List.filterMap_nil, List.map_cons, List.map_nil, List.sum_cons, List.sum_nil,
          evTextU, List.length_append]
        omega
    | cons y ms' =>
      cases hm : x.mem? with
      | none =>
        simp only [List.filterMap_cons, hm] at ih ⊢
        simp only [evTextU, List.length_append, Sep, List.length_cons] at ih ⊢
        omega
      | some m =>
        simp only [hm] at hx
        simp only [List.filterMap_cons, hm, List.map_cons, List.sum_cons] at ih ⊢
        simp only [evTextU, List.length_append, Sep, List.length_cons] at ih ⊢
        omega

theorem evTextU_members (e : EventRec) (tj ec : Bytes) (ms : List ESpec) (R : Bytes) :
    ms.length ≤ (evTextU e tj ec ms R).length + 1 := by
  induction ms with
  | nil => simp
  | cons x rest ih =>
    obtain ⟨y, hy⟩ := x.body_head e tj ec
    cases rest with
    | nil => simp
    | cons z ms' =>
      simp only [evTextU, hy, List.length_append, List.length_cons, Sep] at ih ⊢
      omega

/-- **any order, any whitespace, any unknown members** -/
theorem parseEvent_any_order_unknown (e : EventRec) (tj ec : Bytes) (buf : Bytes) (hc : ECtx e tj ec buf.length)
    (ms : List ESpec) (hws : ∀ x ∈ ms, x.WsOk) (hnd : (ms.filterMap ESpec.mem?).Nodup)
    (hall : ∀ m : EMem, m ∈ ms.filterMap ESpec.mem?) (lead : Bytes) (hlead : AllWs lead) (R : Bytes) :
    parseEvent (lead ++ 123 :: evTextU e tj ec ms R) buf =
      .ok ((lead ++ 123 :: evTextU e tj ec ms R).length - R.length, (encodeEvent e).length,
        encodeEvent e ++ buf.drop (encodeEvent e).length) := by
  have hne : ms ≠ [] := by
    intro h; subst h; have := hall .id; simp at this
  obtain ⟨st', hloop, hinv⟩ := evLoop_memsU e tj ec buf.length hc ms hne hws hnd [] {} (SeenInv_init e ec)
    (fun x _ => by simp) R ((evTextU e tj ec ms R).length + 1) (by have := evTextU_members e tj ec ms R; omega)
  have hmem : ∀ m : EMem, m ∈ seenOf ms [] := fun m => (mem_seenOf ms [] m).mpr (Or.inl (hall m))
  have s := hc.sized
  have hlenE : (encodeEvent e).length = eventSize (tagsSize e.tags) e.content.length := by
    unfold encodeEvent
    rw [encodeEventWith_length _ _ _ _ _ _ _ s.id s.pk s.sig, encodeTags_length]
  have hcapb := hc.hcap
  have htsz : 4 ≤ tagsSize e.tags := by unfold tagsSize; omega
  have hlong : 204 ≤ (evTextU e tj ec ms R).length := by
    have h1 := evTextU_length_ge e tj ec ms R
    have h2 := sum_le_of_nodup_subset (fun m => (valOf e tj ec m).length) [EMem.id, .pubkey, .sig]
      (ms.filterMap ESpec.mem?) (by decide) (fun m _ => hall m)
    have hL : ([EMem.id, .pubkey, .sig].map (fun m => (valOf e tj ec m).length)).sum = 2 * 32 + (0 + 1) + 1 + (2 * 32 + (0 + 1) + 1 + (2 * 64 + (0 + 1) + 1 + 0)) := by
      simp only [List.map_cons, List.map_nil, List.sum_cons, List.sum_nil, valOf, List.length_cons,
        List.length_append, hexOf_length, s.id, s.pk, s.sig, List.length_nil]
    rw [hL] at h2
    omega
  unfold parseEvent
  rw [if_neg (by simp only [List.length_append, List.length_cons]; omega), if_neg (by unfold eventSize at hlenE; omega)]
  rw [eatWs_ws_keep lead 123 _ hlead (by decide)]
  simp only [verifyChar, if_true]
  rw [hloop]
  simp only [hinv.id, hinv.pk, hinv.sig, hinv.kind, hinv.t, hinv.tags, hinv.content, hmem, and_self, if_true]
  have henc : encodeEventWith e.id e.pubkey e.sig e.kind e.createdAt (encodeTags e.tags) e.content = encodeEvent e := rfl
  rw [henc]

end Pocket
