import Pocket.Model.Escape
import Pocket.Lemmas.Total
/- `json_unescape ∘ json_escape = id` on every UTF-8 string (C02, C07, C08): escaping the encoding of
any list of code points and reading it back up to the closing quote returns the original bytes and
consumes exactly the escaped text. -/
namespace Pocket

theorem ncp_utf8 (c : Nat) (hc : c < 1114112) (rest : Bytes) :
    nextCodePoint (utf8Bytes c ++ rest) = .ok (some (c, (utf8Bytes c).length)) := by
  unfold utf8Bytes
  by_cases h1 : c < 128
  · simp only [h1, if_true, List.cons_append, List.nil_append, nextCodePoint]
    have : c % 256 < 128 := by omega
    simp [this]; omega
  · by_cases h2 : c < 2048
    · simp only [h1, h2, if_true, if_false, List.cons_append, List.nil_append, nextCodePoint]
      have a1 : ¬ (c / 64 % 32 + 192 < 128) := by omega
      have a2 : ¬ (c / 64 % 32 + 192 ≥ 224) := by omega
      simp only [a1, a2, if_false, List.length_cons, List.length_nil]
      congr 3; omega
    · by_cases h3 : c < 65536
      · simp only [h1, h2, h3, if_true, if_false, List.cons_append, List.nil_append, nextCodePoint]
        have a1 : ¬ (c / 4096 % 16 + 224 < 128) := by omega
        have a2 : (c / 4096 % 16 + 224 ≥ 224) := by omega
        have a3 : ¬ (c / 4096 % 16 + 224 ≥ 240) := by omega
        simp only [a1, a2, a3, if_true, if_false, List.length_cons, List.length_nil]
        congr 3; omega
      · simp only [h1, h2, h3, if_false, List.cons_append, List.nil_append, nextCodePoint]
        have a1 : ¬ (c / 262144 % 8 + 240 < 128) := by omega
        have a2 : (c / 262144 % 8 + 240 ≥ 224) := by omega
        have a3 : (c / 262144 % 8 + 240 ≥ 240) := by omega
        simp only [a1, a2, a3, if_true, if_false, List.length_cons, List.length_nil]
        congr 3; omega


theorem utf8Bytes_length_pos (c : Nat) : 0 < (utf8Bytes c).length := by
  unfold utf8Bytes; split
  · simp
  · split
    · simp
    · split <;> simp

/-- the UTF-8 encoding of a list of code points -/
def utf8Of (cps : List Nat) : Bytes := cps.flatMap utf8Bytes

/-- what `json_escape` emits for one code point -/
def escOf (c : Nat) : Bytes := if isSafeChar c then utf8Bytes c else (escapePiece c).getD []

def escText (cps : List Nat) : Bytes := cps.flatMap escOf

theorem escapePiece_some (c : Nat) (hs : isSafeChar c = false) (hc : c < 1114112) :
    ∃ p, escapePiece c = some p := by
  unfold isSafeChar at hs
  simp only [Bool.or_eq_false_iff, Bool.and_eq_false_iff, decide_eq_false_iff_not] at hs
  unfold escapePiece
  repeat' split
  all_goals first | exact ⟨_, rfl⟩ | omega

theorem jsonEscapeF_nil (fuel : Nat) : jsonEscapeF fuel [] = .ok [] := by
  cases fuel <;> simp [jsonEscapeF, nextCodePoint]

/-- `json_escape` of a UTF-8 string succeeds and emits the per-code-point pieces -/
theorem jsonEscapeF_utf8 (cps : List Nat) (hc : ∀ c ∈ cps, c < 1114112) (fuel : Nat)
    (hf : cps.length ≤ fuel) : jsonEscapeF fuel (utf8Of cps) = .ok (escText cps) := by
  induction cps generalizing fuel with
  | nil => exact jsonEscapeF_nil fuel
  | cons c rest ih =>
    obtain ⟨fuel, rfl⟩ : ∃ f, fuel = f + 1 := ⟨fuel - 1, by simp at hf; omega⟩
    have hcc := hc c (by simp)
    have ihr := ih (fun x hx => hc x (by simp [hx])) fuel (by simp at hf; omega)
    have hu : utf8Of (c :: rest) = utf8Bytes c ++ utf8Of rest := by simp [utf8Of]
    have he : escText (c :: rest) = escOf c ++ escText rest := by simp [escText]
    rw [hu, he]
    unfold jsonEscapeF
    rw [ncp_utf8 c hcc]
    dsimp only
    rw [List.take_left', List.drop_left', ihr]
    · unfold escOf
      by_cases hs : isSafeChar c = true
      · simp [hs]
      · have hs' : isSafeChar c = false := by simpa using hs
        obtain ⟨p, hp⟩ := escapePiece_some c hs' hcc
        simp [hs', hp]
    · rfl
    · rfl

theorem utf8Of_length_ge (cps : List Nat) : cps.length ≤ (utf8Of cps).length := by
  induction cps with
  | nil => simp [utf8Of]
  | cons c rest ih =>
    have : utf8Of (c :: rest) = utf8Bytes c ++ utf8Of rest := by simp [utf8Of]
    rw [this, List.length_append, List.length_cons]
    have := utf8Bytes_length_pos c
    omega

theorem jsonEscape_utf8 (cps : List Nat) (hc : ∀ c ∈ cps, c < 1114112) :
    jsonEscape (utf8Of cps) = .ok (escText cps) :=
  jsonEscapeF_utf8 cps hc _ (utf8Of_length_ge cps)

/-! ### reading it back -/

/-- prefix the result of the rest of the loop with what one piece consumed and wrote -/
def bump (k : Nat) (w : Bytes) : Outcome (Nat × Bytes) → Outcome (Nat × Bytes)
  | .ok (c, o) => .ok (k + c, w ++ o)
  | .err => .err
  | .panic => .panic

theorem escOf_length_pos (c : Nat) (hc : c < 1114112) : 0 < (escOf c).length := by
  unfold escOf
  split
  · exact utf8Bytes_length_pos c
  · rename_i hs
    have hs' : isSafeChar c = false := by simpa using hs
    unfold isSafeChar at hs'
    simp only [Bool.or_eq_false_iff, Bool.and_eq_false_iff, decide_eq_false_iff_not] at hs'
    unfold escapePiece
    repeat' split
    all_goals first | omega | simp

/-- one escaped piece read back: the loop consumes the piece, writes the code point's UTF-8 bytes
and goes on in the normal state -/
theorem unescF_piece (c : Nat) (hc : c < 1114112) (tail : Bytes) (pos cap : Nat)
    (hcap : pos + (utf8Bytes c).length ≤ cap) (fuel : Nat) (hf : (escOf c).length ≤ fuel) :
    ∃ fuel', fuel' < fuel ∧ fuel - (escOf c).length ≤ fuel' ∧
      unescF fuel (escOf c ++ tail) .normal pos cap =
        bump (escOf c).length (utf8Bytes c) (unescF fuel' tail .normal (pos + (utf8Bytes c).length) cap) := by
  by_cases hs : isSafeChar c = true
  · -- copied verbatim
    have he : escOf c = utf8Bytes c := by simp [escOf, hs]
    rw [he] at hf ⊢
    have hpos := utf8Bytes_length_pos c
    obtain ⟨f, rfl⟩ : ∃ f, fuel = f + 1 := ⟨fuel - 1, by omega⟩
    refine ⟨f, by omega, by omega, ?_⟩
    have h92 : c ≠ 92 := by
      intro h; subst h; simp [isSafeChar] at hs
    have hnc : ¬ cap < pos + (utf8Bytes c).length := by omega
    rw [unescF, ncp_utf8 c hc]
    simp only [h92, if_false, hs, if_true, List.take_left' rfl, List.drop_left' rfl, hnc]
    cases unescF f tail EscSt.normal (pos + (utf8Bytes c).length) cap <;> simp [bump]
  · have hs' : isSafeChar c = false := by simpa using hs
    have hs2 := hs'
    unfold isSafeChar at hs2
    simp only [Bool.or_eq_false_iff, Bool.and_eq_false_iff, decide_eq_false_iff_not] at hs2
    have hsmall : c < 32 ∨ c = 34 ∨ c = 92 := by omega
    have hu : utf8Bytes c = [c] := by
      unfold utf8Bytes
      have : c < 128 := by omega
      simp [this]; omega
    rw [hu] at hcap ⊢
    simp only [List.length_cons, List.length_nil] at hcap
    have hnc : ¬ cap < pos + 1 := by omega
    have hnc0 : ¬ cap < pos := by omega
    rcases hsmall with h32 | rfl | rfl
    · obtain rfl | rfl | rfl | rfl | rfl | rfl | rfl | rfl | rfl | rfl | rfl | rfl | rfl | rfl | rfl | rfl | rfl | rfl | rfl | rfl | rfl | rfl | rfl | rfl | rfl | rfl | rfl | rfl | rfl | rfl | rfl | rfl : c = 0 ∨ c = 1 ∨ c = 2 ∨ c = 3 ∨ c = 4 ∨ c = 5 ∨ c = 6 ∨ c = 7 ∨ c = 8 ∨ c = 9 ∨ c = 10 ∨ c = 11 ∨ c = 12 ∨ c = 13 ∨ c = 14 ∨ c = 15 ∨ c = 16 ∨ c = 17 ∨ c = 18 ∨ c = 19 ∨ c = 20 ∨ c = 21 ∨ c = 22 ∨ c = 23 ∨ c = 24 ∨ c = 25 ∨ c = 26 ∨ c = 27 ∨ c = 28 ∨ c = 29 ∨ c = 30 ∨ c = 31 := by omega
      all_goals (
        simp only [escOf, isSafeChar, escapePiece, hexDigitLower] at hf ⊢
        simp only [Nat.reduceLeDiff, Nat.reduceEqDiff, decide_true, decide_false, Bool.and_true, Bool.and_false, Bool.or_false, Bool.false_eq_true,
          if_false, if_true, Option.getD_some, List.length_cons, List.length_nil, Nat.reduceAdd, Nat.reduceDiv, Nat.reduceMod, Nat.reduceLT,
          Nat.reduceGT, Nat.lt_irrefl, Nat.reduceMul] at hf ⊢
        first
        | (obtain ⟨f, rfl⟩ : ∃ f, fuel = f + 2 := ⟨fuel - 2, by omega⟩
           refine ⟨f, by omega, by omega, ?_⟩
           simp [unescF, nextCodePoint, hnc, hnc0, hexVal, utf8Bytes]
           cases unescF f tail EscSt.normal (pos + 1) cap <;> simp [bump] <;> omega)
        | (obtain ⟨f, rfl⟩ : ∃ f, fuel = f + 6 := ⟨fuel - 6, by omega⟩
           refine ⟨f, by omega, by omega, ?_⟩
           simp [unescF, nextCodePoint, hnc, hnc0, hexVal, utf8Bytes]
           cases unescF f tail EscSt.normal (pos + 1) cap <;> simp [bump] <;> omega))
    · simp only [escOf, isSafeChar, escapePiece] at hf ⊢
      simp at hf ⊢
      obtain ⟨f, rfl⟩ : ∃ f, fuel = f + 2 := ⟨fuel - 2, by omega⟩
      refine ⟨f, by omega, by omega, ?_⟩
      simp [unescF, nextCodePoint, hnc, hnc0]
      cases unescF f tail EscSt.normal (pos + 1) cap <;> simp [bump] <;> omega
    · simp only [escOf, isSafeChar, escapePiece] at hf ⊢
      simp at hf ⊢
      obtain ⟨f, rfl⟩ : ∃ f, fuel = f + 2 := ⟨fuel - 2, by omega⟩
      refine ⟨f, by omega, by omega, ?_⟩
      simp [unescF, nextCodePoint, hnc, hnc0]
      cases unescF f tail EscSt.normal (pos + 1) cap <;> simp [bump] <;> omega

/-- **`json_unescape ∘ json_escape = id`**: the escaped text of any list of code points, followed by
the closing quote and anything else, reads back as the UTF-8 bytes of those code points; the reader
stops at the quote having consumed exactly the escaped text -/
theorem unescF_escText (cps : List Nat) (hc : ∀ c ∈ cps, c < 1114112) (rest : Bytes) (pos cap : Nat)
    (hcap : pos + (utf8Of cps).length ≤ cap) (fuel : Nat)
    (hf : (escText cps ++ 34 :: rest).length ≤ fuel) :
    unescF fuel (escText cps ++ 34 :: rest) .normal pos cap = .ok ((escText cps).length, utf8Of cps) := by
  induction cps generalizing fuel pos with
  | nil =>
    simp only [escText, List.flatMap_nil, List.nil_append, List.length_cons] at hf ⊢
    obtain ⟨f, rfl⟩ : ∃ f, fuel = f + 1 := ⟨fuel - 1, by omega⟩
    simp [unescF, nextCodePoint, isSafeChar, utf8Of]
  | cons c r ih =>
    have hcc := hc c (by simp)
    have hu : utf8Of (c :: r) = utf8Bytes c ++ utf8Of r := by simp [utf8Of]
    have he : escText (c :: r) = escOf c ++ escText r := by simp [escText]
    rw [hu, List.length_append] at hcap
    rw [he, List.append_assoc] at hf ⊢
    rw [List.length_append] at hf
    obtain ⟨fuel', _, hge, hstep⟩ := unescF_piece c hcc (escText r ++ 34 :: rest) pos cap (by omega) fuel (by omega)
    rw [hstep, ih (fun x hx => hc x (by simp [hx])) (pos + (utf8Bytes c).length) (by omega) fuel' (by omega)]
    simp [bump, hu, he]

theorem jsonUnescape_escText (cps : List Nat) (hc : ∀ c ∈ cps, c < 1114112) (rest : Bytes) (cap : Nat)
    (hcap : (utf8Of cps).length ≤ cap) :
    jsonUnescape (escText cps ++ 34 :: rest) cap = .ok ((escText cps).length, utf8Of cps) :=
  unescF_escText cps hc rest 0 cap (by omega) _ (Nat.le_refl _)

/-- escaping is injective on UTF-8 strings (distinct strings have distinct escaped texts) -/
theorem escText_injective (a b : List Nat) (ha : ∀ c ∈ a, c < 1114112) (hb : ∀ c ∈ b, c < 1114112)
    (h : escText a = escText b) : utf8Of a = utf8Of b := by
  have h1 := jsonUnescape_escText a ha [] ((utf8Of a).length + (utf8Of b).length) (by omega)
  have h2 := jsonUnescape_escText b hb [] ((utf8Of a).length + (utf8Of b).length) (by omega)
  rw [h, h2] at h1
  simp only [Outcome.ok.injEq, Prod.mk.injEq] at h1
  exact h1.2.symm

end Pocket
