import Pocket.Lemmas.Spelling
/- The tags array of an event in ANY JSON spelling (C01, C02): whitespace at every place JSON allows
it (after `[`, before `]`, round every comma) and every string written with any legal escapes.  The
grammar is an inductive relation between the tags and their text; `read_tags_array` (both passes:
`count_tags`/`burn_tag`, then `read_tag`) reads every such text back to the tag section `from_parts`
writes. -/
namespace Pocket

/-- what follows a string of a tag: more strings, then `]` -/
inductive StrsRest : List Bytes → Bytes → Prop
  | close (w : Bytes) : AllWs w → StrsRest [] (w ++ [93])
  | more (s : Bytes) (ss : List Bytes) (w w' e r : Bytes) : AllWs w → AllWs w' → Spells s e → StrsRest ss r →
      StrsRest (s :: ss) (w ++ 44 :: (w' ++ 34 :: (e ++ 34 :: r)))

/-- what follows a tag's `[`, blanks already eaten: `]`, or a first string and the rest -/
inductive TagBody : List Bytes → Bytes → Prop
  | empty : TagBody [] [93]
  | strs (s : Bytes) (ss : List Bytes) (e r : Bytes) : Spells s e → StrsRest ss r →
      TagBody (s :: ss) (34 :: (e ++ 34 :: r))

/-- what follows a tag's `]`: more tags, then the outer `]` -/
inductive TagsRest : TagsRec → Bytes → Prop
  | close (w : Bytes) : AllWs w → TagsRest [] (w ++ [93])
  | more (t : List Bytes) (ts : TagsRec) (w w' w'' tb r : Bytes) : AllWs w → AllWs w' → AllWs w'' → TagBody t tb →
      TagsRest ts r → TagsRest (t :: ts) (w ++ 44 :: (w' ++ 91 :: (w'' ++ (tb ++ r))))

/-- the whole array: `[ ws ]`, or `[ ws [ ws tag … ] … ]` -/
inductive TagsText : TagsRec → Bytes → Prop
  | empty (w : Bytes) : AllWs w → TagsText [] (91 :: (w ++ [93]))
  | tags (t : List Bytes) (ts : TagsRec) (w w'' tb r : Bytes) : AllWs w → AllWs w'' → TagBody t tb → TagsRest ts r →
      TagsText (t :: ts) (91 :: (w ++ 91 :: (w'' ++ (tb ++ r))))

theorem StrsRest.length {ss : List Bytes} {r : Bytes} (h : StrsRest ss r) : ss.length + 1 ≤ r.length := by
  induction h with
  | close w _ => simp
  | more s ss w w' e r _ _ _ _ ih => simp only [List.length_cons, List.length_append]; omega

theorem TagsRest.length {ts : TagsRec} {r : Bytes} (h : TagsRest ts r) : ts.length + 1 ≤ r.length := by
  induction h with
  | close w _ => simp
  | more t ts w w' w'' tb r _ _ _ _ _ ih => simp only [List.length_cons, List.length_append]; omega

theorem TagBody.head {t : List Bytes} {tb : Bytes} (h : TagBody t tb) : ∃ b x, tb = b :: x ∧ isWs b = false := by
  cases h with
  | empty => exact ⟨93, [], rfl, by decide⟩
  | strs s ss e r _ _ => exact ⟨34, _, rfl, by decide⟩

/-- the strings of one tag, from after the first opening quote -/
theorem readTagStrs_text (ss : List Bytes) (s e r rest : Bytes) (he : Spells s e) (hr : StrsRest ss r)
    (outpos cap : Nat) (hcap : outpos + strsSize (s :: ss) ≤ cap) (fuel : Nat) (hf : ss.length + 1 ≤ fuel) :
    readTagStrs fuel (e ++ 34 :: (r ++ rest)) outpos cap = .ok (rest, s :: ss) := by
  induction hr generalizing s e outpos fuel with
  | close w hw =>
    obtain ⟨f, rfl⟩ : ∃ f, fuel = f + 1 := ⟨fuel - 1, by omega⟩
    simp only [strsSize] at hcap
    unfold readTagStrs
    rw [if_neg (by omega), jsonUnescape_spells s e _ _ he (by omega)]
    dsimp only
    rw [drop_len_succ, List.append_assoc]
    simp only [List.cons_append, List.nil_append]
    rw [eatWs_ws_keep w 93 _ hw (by decide)]
    simp
  | more s2 ss2 w w' e2 r2 hw hw' he2 _ ih =>
    obtain ⟨f, rfl⟩ : ∃ f, fuel = f + 1 := ⟨fuel - 1, by omega⟩
    simp only [strsSize] at hcap
    unfold readTagStrs
    rw [if_neg (by omega), jsonUnescape_spells s e _ _ he (by omega)]
    dsimp only
    rw [drop_len_succ]
    have hshape : (w ++ 44 :: (w' ++ 34 :: (e2 ++ 34 :: r2))) ++ rest = w ++ 44 :: (w' ++ 34 :: (e2 ++ 34 :: (r2 ++ rest))) := by
      simp
    rw [hshape, eatWs_ws_keep w 44 _ hw (by decide)]
    simp only [if_true, show (44 : Nat) = 44 from rfl]
    rw [eatWs_ws_keep w' 34 _ hw' (by decide)]
    have ih' := ih s2 e2 he2 (outpos + 2 + s.length) (by simp only [strsSize]; omega) f (by simp at hf; omega)
    simp only [verifyChar, if_true, ih']

theorem readTag_text (t : List Bytes) (tb rest : Bytes) (h : TagBody t tb) (outpos cap : Nat)
    (hcap : outpos + tagSize t ≤ cap) : readTag (tb ++ rest) outpos cap = .ok (rest, t) := by
  cases h with
  | empty =>
    simp only [tagSize, strsSize] at hcap
    simp [readTag]; omega
  | strs s ss e r he hr =>
    simp only [tagSize] at hcap
    have hlen := hr.length
    have hshape : (34 :: (e ++ 34 :: r)) ++ rest = 34 :: (e ++ 34 :: (r ++ rest)) := by simp
    rw [hshape]
    simp only [readTag, show (34 : Nat) ≠ 93 from by decide, if_false, verifyChar, if_true]
    exact readTagStrs_text ss s e r rest he hr (outpos + 2) cap (by omega) _ (by
      simp only [List.length_append, List.length_cons]; omega)

theorem burnTagLoop_text (ss : List Bytes) (r rest : Bytes) (hr : StrsRest ss r) (fuel : Nat) (hf : ss.length + 1 ≤ fuel) :
    ∀ w0 : Bytes, AllWs w0 → burnTagLoop fuel (eatWs (w0 ++ (r ++ rest))) = .ok rest := by
  induction hr generalizing fuel with
  | close w hw =>
    intro w0 hw0
    obtain ⟨f, rfl⟩ : ∃ f, fuel = f + 1 := ⟨fuel - 1, by omega⟩
    rw [eatWs_ws w0 _ hw0, List.append_assoc]
    simp only [List.cons_append, List.nil_append]
    rw [eatWs_ws_keep w 93 _ hw (by decide)]
    simp [burnTagLoop, verifyChar]
  | more s ss w w' e r2 hw hw' he _ ih =>
    intro w0 hw0
    obtain ⟨f, rfl⟩ : ∃ f, fuel = f + 1 := ⟨fuel - 1, by omega⟩
    have hshape : (w ++ 44 :: (w' ++ 34 :: (e ++ 34 :: r2))) ++ rest = w ++ 44 :: (w' ++ 34 :: (e ++ 34 :: (r2 ++ rest))) := by
      simp
    rw [eatWs_ws w0 _ hw0, hshape, eatWs_ws_keep w 44 _ hw (by decide)]
    have hb := burnString_spells s e (r2 ++ rest) he
    have ih' := ih f (by simp at hf; omega) [] (by intro b hb; cases hb)
    simp only [List.nil_append] at ih'
    simp only [burnTagLoop, if_true, eatWs_ws_keep w' 34 _ hw' (by decide), verifyChar, hb, ih']

/-- skipping one tag, from after its `[` (any blanks) to after its `]` -/
theorem burnTag_text (t : List Bytes) (w tb rest : Bytes) (hw : AllWs w) (h : TagBody t tb) :
    burnTag (w ++ (tb ++ rest)) = .ok rest := by
  cases h with
  | empty =>
    simp only [List.cons_append, List.nil_append]
    simp [burnTag, eatWs_ws_keep w 93 rest hw (by decide)]
  | strs s ss e r he hr =>
    have hshape : (34 :: (e ++ 34 :: r)) ++ rest = 34 :: (e ++ 34 :: (r ++ rest)) := by simp
    rw [hshape]
    have hb := burnString_spells s e (r ++ rest) he
    have hlen := hr.length
    have hl := burnTagLoop_text ss r rest hr ((r ++ rest).length + 1) (by simp only [List.length_append]; omega) []
      (by intro b hb; cases hb)
    simp only [List.nil_append] at hl
    simp only [burnTag, eatWs_ws_keep w 34 _ hw (by decide), show (34 : Nat) ≠ 93 from by decide, if_false, verifyChar,
      if_true, hb, hl]

theorem countTagsLoop_text (ts : TagsRec) (r rest : Bytes) (hr : TagsRest ts r) (n fuel : Nat) (hf : ts.length + 1 ≤ fuel) :
    countTagsLoop fuel (eatWs (r ++ rest)) n = .ok (n + ts.length) := by
  induction hr generalizing n fuel with
  | close w hw =>
    obtain ⟨f, rfl⟩ : ∃ f, fuel = f + 1 := ⟨fuel - 1, by omega⟩
    rw [List.append_assoc]
    simp only [List.cons_append, List.nil_append]
    rw [eatWs_ws_keep w 93 _ hw (by decide)]
    simp [countTagsLoop]
  | more t ts w w' w'' tb r2 hw hw' hw'' htb _ ih =>
    obtain ⟨f, rfl⟩ : ∃ f, fuel = f + 1 := ⟨fuel - 1, by omega⟩
    have hshape : (w ++ 44 :: (w' ++ 91 :: (w'' ++ (tb ++ r2)))) ++ rest =
        w ++ 44 :: (w' ++ 91 :: (w'' ++ (tb ++ (r2 ++ rest)))) := by simp
    rw [hshape, eatWs_ws_keep w 44 _ hw (by decide)]
    have hbt := burnTag_text t w'' tb (r2 ++ rest) hw'' htb
    have ih' := ih (n + 1) f (by simp at hf; omega)
    simp only [countTagsLoop, show (44 : Nat) ≠ 93 from by decide, if_false, if_true,
      eatWs_ws_keep w' 91 _ hw' (by decide), verifyChar, hbt, ih', List.length_cons]
    congr 1; omega

/-- the tag loop of `read_tags_array` returns the tags themselves -/
theorem readTagsLoop_text (ts : TagsRec) (t : List Bytes) (tb r rest : Bytes) (htb : TagBody t tb) (hr : TagsRest ts r)
    (k n : Nat) (hk : k + 1 + ts.length = n) (outpos cap : Nat) (hcap : outpos + tagsBodySize (t :: ts) ≤ cap)
    (h16 : outpos + tagsBodySize (t :: ts) ≤ 65535) (fuel : Nat) (hf : ts.length + 1 ≤ fuel) :
    ∃ offs, readTagsLoop fuel (tb ++ (r ++ rest)) k n outpos cap = .ok (rest, offs, t :: ts) := by
  induction hr generalizing t tb k outpos fuel with
  | close w hw =>
    obtain ⟨f, rfl⟩ : ∃ f, fuel = f + 1 := ⟨fuel - 1, by omega⟩
    simp only [tagsBodySize] at hcap h16
    have hrt := readTag_text t tb ((w ++ [93]) ++ rest) htb outpos cap (by omega)
    refine ⟨[outpos], ?_⟩
    unfold readTagsLoop
    rw [if_neg (by omega), hrt]
    simp only []
    rw [List.append_assoc]
    simp only [List.cons_append, List.nil_append]
    rw [eatWs_ws_keep w 93 _ hw (by decide)]
    simp at hk
    simp
    omega
  | more t2 ts2 w w' w'' tb2 r2 hw hw' hw'' htb2 _ ih =>
    obtain ⟨f, rfl⟩ : ∃ f, fuel = f + 1 := ⟨fuel - 1, by omega⟩
    have hshape : (w ++ 44 :: (w' ++ 91 :: (w'' ++ (tb2 ++ r2)))) ++ rest =
        w ++ 44 :: (w' ++ 91 :: (w'' ++ (tb2 ++ (r2 ++ rest)))) := by simp
    rw [hshape]
    simp only [tagsBodySize] at hcap h16
    have hrt := readTag_text t tb (w ++ 44 :: (w' ++ 91 :: (w'' ++ (tb2 ++ (r2 ++ rest))))) htb outpos cap (by omega)
    obtain ⟨b2, x2, hb2, hb2w⟩ := htb2.head
    have hws : eatWs (w'' ++ (tb2 ++ (r2 ++ rest))) = tb2 ++ (r2 ++ rest) := by
      rw [hb2]; exact eatWs_ws_keep w'' b2 _ hw'' hb2w
    obtain ⟨offs, ih'⟩ := ih t2 tb2 htb2 (k + 1) (by simp at hk ⊢; omega) (outpos + tagSize t)
      (by simp only [tagsBodySize]; omega) (by simp only [tagsBodySize]; omega) f (by simp at hf; omega)
    refine ⟨outpos :: offs, ?_⟩
    unfold readTagsLoop
    rw [if_neg (by omega), hrt]
    have hk2 : ¬ k + 1 ≥ n := by simp at hk; omega
    simp only []
    rw [eatWs_ws_keep w 44 _ hw (by decide)]
    simp only [show (44 : Nat) ≠ 93 from by decide, if_false, if_true, eatWs_ws_keep w' 91 _ hw' (by decide), verifyChar,
      hk2, hws, ih']

/-- **any spelling of the tags array reads back as the tag section `from_parts` writes** -/
theorem readTagsArray_text (ts : TagsRec) (tj rest : Bytes) (htj : TagsText ts tj) (cap : Nat)
    (hfit : tagsSize ts ≤ 65535) (hcap : tagsSize ts ≤ cap) :
    readTagsArray (tj ++ rest) cap = .ok (rest, encodeTags ts) := by
  have hsz := tagsBodySize_le ts
  cases htj with
  | empty w hw =>
    have hcap4 : ¬ cap < 4 := by simp [tagsSize, tagsBodySize] at hcap; omega
    have hshape : (91 :: (w ++ [93])) ++ rest = 91 :: (w ++ 93 :: rest) := by simp
    rw [hshape]
    simp [readTagsArray, verifyChar, eatWs_ws_keep w 93 rest hw (by decide), hcap4, countTags, burnFuel, burnArray, eatWsC,
      isWs, encodeTags, tagsSize, tagsBodySize, encOffsets, encTagsBody]
  | tags t ts' w w'' tb r hw hw'' htb hr =>
    have hshape : (91 :: (w ++ 91 :: (w'' ++ (tb ++ r)))) ++ rest = 91 :: (w ++ 91 :: (w'' ++ (tb ++ (r ++ rest)))) := by simp
    rw [hshape]
    have hlen := hr.length
    obtain ⟨b, x, hb, hbw⟩ := htb.head
    have hws : eatWs (w'' ++ (tb ++ (r ++ rest))) = tb ++ (r ++ rest) := by
      rw [hb]; exact eatWs_ws_keep w'' b _ hw'' hbw
    have hbt := burnTag_text t w'' tb (r ++ rest) hw'' htb
    have hcl := countTagsLoop_text ts' r rest hr 1 ((r ++ rest).length + 1) (by simp only [List.length_append]; omega)
    have hcount : countTags (91 :: (w'' ++ (tb ++ (r ++ rest)))) = .ok (ts'.length + 1) := by
      simp only [countTags, show (91 : Nat) ≠ 93 from by decide, if_false, if_true, hbt, hcl]
      congr 1; omega
    simp only [List.length_cons] at hsz
    obtain ⟨offs, hloop⟩ := readTagsLoop_text ts' t tb r rest htb hr 0 (ts'.length + 1) (by omega)
      (4 + (ts'.length + 1) * 2) cap (by omega) (by omega)
      ((w'' ++ (tb ++ (r ++ rest))).length + 1) (by simp only [List.length_append]; omega)
    have hspec := (readTagsLoop_spec _ _ _ _ _ _ _ _ _ hloop (by omega)).2
    have hcap4 : ¬ cap < 4 := by omega
    have hn16 : ¬ ts'.length + 1 > 65535 := by omega
    have hcapo : ¬ cap < 4 + (ts'.length + 1) * 2 := by omega
    have htot : ¬ 4 + (ts'.length + 1) * 2 + tagsBodySize (t :: ts') > 65535 := by omega
    unfold readTagsArray
    simp only [verifyChar, if_true]
    try dsimp only
    rw [eatWs_ws_keep w 91 _ hw (by decide)]
    rw [if_neg hcap4, hcount]
    try dsimp only
    rw [if_neg hn16, if_neg (by omega)]
    simp only [verifyChar, if_true]
    try dsimp only
    rw [if_neg hcapo, hws, hloop]
    try dsimp only
    rw [if_neg htot, hspec]
    unfold encodeTags
    simp only [List.length_cons]
    rw [← hsz]
    have e1 : 4 + (ts'.length + 1) * 2 = 4 + 2 * (ts'.length + 1) := by omega
    rw [e1]

theorem TagsText.head {ts : TagsRec} {tj : Bytes} (h : TagsText ts tj) : ∃ x, tj = 91 :: x := by
  cases h <;> exact ⟨_, rfl⟩

theorem readContent_spells (c ec rest : Bytes) (cap a : Nat) (he : Spells c ec)
    (hcap : a + 4 + c.length ≤ cap) (h32 : a + 4 + c.length ≤ 4294967295) :
    readContent (34 :: (ec ++ 34 :: rest)) cap a = .ok (rest, c) := by
  unfold readContent
  simp only [verifyChar, if_true]
  rw [if_neg (by omega), jsonUnescape_spells c ec rest _ he (by omega)]
  dsimp only
  rw [if_neg (by unfold U32MAX; omega), drop_len_succ]

/-! ### what `as_json` writes is one of the texts -/

theorem strsJson_rest (ss : List Bytes) (hu : ∀ x ∈ ss, IsUtf8 x) (txt : Bytes) (h : strsJson ss false = .ok txt) :
    StrsRest ss (txt ++ [93]) := by
  induction ss generalizing txt with
  | nil =>
    simp only [strsJson, Outcome.ok.injEq] at h
    subst h
    exact .close [] (by intro b hb; cases hb)
  | cons s ss ih =>
    obtain ⟨e, r, he, hr, rfl⟩ := strsJson_cons_inv s ss false txt h
    have := StrsRest.more s ss [] [] e (r ++ [93]) (by intro b hb; cases hb) (by intro b hb; cases hb)
      (jsonEscape_spells s e (hu s (by simp)) he) (ih (fun x hx => hu x (by simp [hx])) r hr)
    simpa using this

theorem strsJson_body (t : List Bytes) (hu : ∀ x ∈ t, IsUtf8 x) (txt : Bytes) (h : strsJson t true = .ok txt) :
    TagBody t (txt ++ [93]) := by
  cases t with
  | nil =>
    simp only [strsJson, Outcome.ok.injEq] at h
    subst h
    exact .empty
  | cons s ss =>
    obtain ⟨e, r, he, hr, rfl⟩ := strsJson_cons_inv s ss true txt h
    have := TagBody.strs s ss e (r ++ [93]) (jsonEscape_spells s e (hu s (by simp)) he)
      (strsJson_rest ss (fun x hx => hu x (by simp [hx])) r hr)
    simpa using this

theorem tagsJsonBody_rest (ts : TagsRec) (hu : TagsUtf8 ts) (txt : Bytes) (h : tagsJsonBody ts false = .ok txt) :
    TagsRest ts (txt ++ [93]) := by
  induction ts generalizing txt with
  | nil =>
    simp only [tagsJsonBody, Outcome.ok.injEq] at h
    subst h
    exact .close [] (by intro b hb; cases hb)
  | cons t ts ih =>
    obtain ⟨sj, r', hsj, hr', rfl⟩ := tagsJsonBody_cons_inv t ts false txt h
    have := TagsRest.more t ts [] [] [] (sj ++ [93]) (r' ++ [93]) (by intro b hb; cases hb) (by intro b hb; cases hb)
      (by intro b hb; cases hb) (strsJson_body t (hu t (by simp)) sj hsj)
      (ih (fun t' ht' => hu t' (by simp [ht'])) r' hr')
    simpa using this

/-- the array `as_json` writes is a tags text -/
theorem tagsJson_text (ts : TagsRec) (hu : TagsUtf8 ts) (tj : Bytes) (h : tagsJson ts = .ok tj) : TagsText ts tj := by
  unfold tagsJson at h
  split at h
  · rename_i body hbody
    simp only [Outcome.ok.injEq] at h
    subst h
    cases ts with
    | nil =>
      simp only [tagsJsonBody, Outcome.ok.injEq] at hbody
      subst hbody
      exact .empty [] (by intro b hb; cases hb)
    | cons t ts' =>
      obtain ⟨sj, r', hsj, hr', rfl⟩ := tagsJsonBody_cons_inv t ts' true body hbody
      have := TagsText.tags t ts' [] [] (sj ++ [93]) (r' ++ [93]) (by intro b hb; cases hb) (by intro b hb; cases hb)
        (strsJson_body t (hu t (by simp)) sj hsj) (tagsJsonBody_rest ts' (fun t' ht' => hu t' (by simp [ht'])) r' hr')
      simpa using this
  · cases h
  · cases h

end Pocket
