import Pocket.Model.ParseFilter
/- small list facts shared by the order-independence proofs -/
namespace Pocket

theorem sum_map_erase {α : Type} [DecidableEq α] (w : α → Nat) (S : List α) (a : α) (h : a ∈ S) :
    (S.map w).sum = w a + ((S.erase a).map w).sum := by
  induction S with
  | nil => cases h
  | cons b S ih =>
    by_cases hb : b = a
    · subst hb; simp
    · have : a ∈ S := by
        rcases List.mem_cons.mp h with h | h
        · exact absurd h.symm hb
        · exact h
      rw [List.erase_cons_tail (by simpa using hb)]
      simp only [List.map_cons, List.sum_cons, ih this]
      omega

theorem sum_le_of_nodup_subset {α : Type} [DecidableEq α] (w : α → Nat) (S l : List α) (hS : S.Nodup)
    (hsub : ∀ x ∈ S, x ∈ l) : (S.map w).sum ≤ (l.map w).sum := by
  induction l generalizing S with
  | nil =>
    cases S with
    | nil => simp
    | cons a S => exact absurd (hsub a (by simp)) (by simp)
  | cons a l ih =>
    by_cases ha : a ∈ S
    · rw [sum_map_erase w S a ha]
      have := ih (S.erase a) (hS.erase a) (by
        intro x hx
        have hxS : x ∈ S := List.mem_of_mem_erase hx
        have hne : x ≠ a := by
          intro heq; subst heq
          exact (List.Nodup.not_mem_erase hS) hx
        rcases List.mem_cons.mp (hsub x hxS) with h | h
        · exact absurd h hne
        · exact h)
      simp only [List.map_cons, List.sum_cons]
      omega
    · have := ih S hS (by
        intro x hx
        rcases List.mem_cons.mp (hsub x hx) with h | h
        · subst h; exact absurd hx ha
        · exact h)
      simp only [List.map_cons, List.sum_cons]
      omega

theorem sum_ones {α : Type} (l : List α) : (l.map (fun _ => 1)).sum = l.length := by
  induction l with
  | nil => rfl
  | cons a l ih => simp only [List.map_cons, List.sum_cons, ih, List.length_cons]; omega

/-- a duplicate-free list drawn from a list of `n` elements has at most `n` elements -/
theorem nodup_length_le {α : Type} [DecidableEq α] (S l : List α) (hS : S.Nodup) (hsub : ∀ x ∈ S, x ∈ l) :
    S.length ≤ l.length := by
  have := sum_le_of_nodup_subset (fun _ => 1) S l hS hsub
  rwa [sum_ones, sum_ones] at this

/-- the 52 tag letters -/
def allLetters : List Nat := (List.range 26).map (· + 65) ++ (List.range 26).map (· + 97)

theorem isLetter_mem (l : Nat) (h : isLetter l = true) : l ∈ allLetters := by
  unfold isLetter at h
  simp only [Bool.or_eq_true, Bool.and_eq_true, decide_eq_true_eq] at h
  unfold allLetters
  simp only [List.mem_append, List.mem_map, List.mem_range]
  rcases h with h | h
  · exact Or.inl ⟨l - 65, by omega, by omega⟩
  · exact Or.inr ⟨l - 97, by omega, by omega⟩

/-- distinct letters are at most 52 -/
theorem letters_le_52 (ls : List Nat) (hnd : ls.Nodup) (hl : ∀ l ∈ ls, isLetter l = true) : ls.length ≤ 52 := by
  have := nodup_length_le ls allLetters hnd (fun l h => isLetter_mem l (hl l h))
  simpa [allLetters] using this

end Pocket
