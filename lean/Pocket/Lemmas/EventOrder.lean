import Pocket.Lemmas.JsonText
/- Order independence and whitespace tolerance of `Event::from_json` (C01): the seven members of an
event — the tags array and the content in ANY JSON spelling (`TagsText`, `Spells`: whitespace inside the
arrays, any legal escapes), hex and decimal members as `as_json` renders them — in ANY order, with ANY whitespace before a key,
around the colon and after a value, parse to exactly the bytes `from_parts` writes. -/
namespace Pocket

inductive EMem where
  | id | pubkey | kind | createdAt | tags | content | sig
deriving DecidableEq, Repr

/-- what follows a value: whitespace, then `,` or `}` -/
def Sep (w3 : Bytes) (last : Bool) (X : Bytes) : Bytes := w3 ++ (if last then 125 else 44) :: X

theorem nextObjectField_sep (w3 : Bytes) (last : Bool) (X : Bytes) (h : AllWs w3) :
    nextObjectField (Sep w3 last X) = .ok (last, X) := by
  unfold nextObjectField Sep
  cases last
  · simp only [Bool.false_eq_true, if_false]
    rw [eatWs_ws_keep w3 44 X h (by decide)]; simp
  · simp only [if_true]
    rw [eatWs_ws_keep w3 125 X h (by decide)]; simp

theorem noLeadingDigit_sep (w3 : Bytes) (last : Bool) (X : Bytes) (h : AllWs w3) :
    NoLeadingDigit (Sep w3 last X) := by
  unfold Sep
  cases w3 with
  | nil =>
    cases last
    · exact noLeadingDigit_of 44 X (by decide)
    · exact noLeadingDigit_of 125 X (by decide)
  | cons b w =>
    have hb := h b (by simp)
    refine noLeadingDigit_of b _ ?_
    unfold isWs at hb; unfold isDigit
    simp at hb ⊢
    omega

/-! ### members -/

/-- what the theorems assume of the event and the buffer -/
structure ECtx (e : EventRec) (tj ec : Bytes) (cap : Nat) : Prop where
  sized : EventSized e
  bid : ∀ b ∈ e.id, b < 256
  bpk : ∀ b ∈ e.pubkey, b < 256
  bsig : ∀ b ∈ e.sig, b < 256
  htj : TagsText e.tags tj
  hec : Spells e.content ec
  hcap : 144 + tagsSize e.tags + 4 + e.content.length ≤ cap

def keyOf : EMem → Bytes
  | .id => [105, 100]
  | .pubkey => [112, 117, 98, 107, 101, 121]
  | .kind => [107, 105, 110, 100]
  | .createdAt => [99, 114, 101, 97, 116, 101, 100, 95, 97, 116]
  | .tags => [116, 97, 103, 115]
  | .content => [99, 111, 110, 116, 101, 110, 116]
  | .sig => [115, 105, 103]

def valOf (e : EventRec) (tj ec : Bytes) : EMem → Bytes
  | .id => 34 :: (hexOf e.id ++ [34])
  | .pubkey => 34 :: (hexOf e.pubkey ++ [34])
  | .kind => decOf e.kind
  | .createdAt => decOf e.createdAt
  | .tags => tj
  | .content => 34 :: (ec ++ [34])
  | .sig => 34 :: (hexOf e.sig ++ [34])

/-- `"key" ws : ws value` -/
def memText (e : EventRec) (tj ec : Bytes) (m : EMem) (w1 w2 : Bytes) : Bytes :=
  34 :: (keyOf m ++ 34 :: (w1 ++ 58 :: (w2 ++ valOf e tj ec m)))

/-- the parser state after a member (`after` = the text that follows the member's value) -/
def evApply (e : EventRec) (ec : Bytes) (st : EvSt) (m : EMem) (after : Bytes) : EvSt :=
  match m with
  | .id => { st with id := some e.id }
  | .pubkey => { st with pk := some e.pubkey }
  | .sig => { st with sig := some e.sig }
  | .kind => { st with kind := some e.kind }
  | .createdAt => { st with t := some e.createdAt }
  | .tags =>
    match st.contentStart with
    | some _ => { st with tags := some (encodeTags e.tags), content := some e.content }
    | none => { st with tags := some (encodeTags e.tags) }
  | .content =>
    match st.tags with
    | none => { st with contentStart := some (34 :: (ec ++ 34 :: after)) }
    | some _ => { st with content := some e.content }

/-- the member has not been seen yet -/
def MemFresh (st : EvSt) : EMem → Prop
  | .id => st.id = none
  | .pubkey => st.pk = none
  | .sig => st.sig = none
  | .kind => st.kind = none
  | .createdAt => st.t = none
  | .tags => st.tags = none
  | .content => st.content = none

/-- what the state records about tags and a skipped content is about this event -/
structure EvOk (e : EventRec) (ec : Bytes) (st : EvSt) : Prop where
  tags : ∀ tb, st.tags = some tb → tb = encodeTags e.tags
  cs : ∀ c, st.contentStart = some c → ∃ a, c = 34 :: (ec ++ 34 :: a)

theorem decOf_head (n : Nat) : ∃ d ds, decOf n = d :: ds ∧ isWs d = false := by
  obtain ⟨d, ds, h, h1, h2⟩ := decDigits_head (n + 1) n (by omega)
  exact ⟨d, ds, h, by unfold isWs; simp; omega⟩

/-- one member, with any whitespace around its colon, whatever follows -/
theorem evMember_mem (e : EventRec) (tj ec : Bytes) (cap : Nat) (hc : ECtx e tj ec cap) (st : EvSt)
    (hok : EvOk e ec st) (m : EMem) (hf : MemFresh st m) (w1 w2 : Bytes) (h1 : AllWs w1) (h2 : AllWs w2)
    (after : Bytes) (hafter : NoLeadingDigit after) :
    evMember st (memText e tj ec m w1 w2 ++ after) cap = .ok (evApply e ec st m after, after) := by
  obtain ⟨⟨s1, s2, s3, s4, s5, s6, s7⟩, bid, bpk, bsig, htj, hec, hcap⟩ := hc
  unfold eventSize at s7
  cases m with
  | id =>
    simp only [MemFresh] at hf
    have hcol := eatColon_ws w1 w2 34 (hexOf e.id ++ 34 :: after) h1 h2 (by decide)
    simp [memText, keyOf, valOf, evApply, evMember, verifyChar, startsWith, kId, hf, hcol,
      readHexField_hexOf 32 e.id after s1 bid]
  | pubkey =>
    simp only [MemFresh] at hf
    have hcol := eatColon_ws w1 w2 34 (hexOf e.pubkey ++ 34 :: after) h1 h2 (by decide)
    simp [memText, keyOf, valOf, evApply, evMember, verifyChar, startsWith, kId, kSig, kKind, kTags, kPubkey, hf, hcol,
      readHexField_hexOf 32 e.pubkey after s2 bpk]
  | sig =>
    simp only [MemFresh] at hf
    have hcol := eatColon_ws w1 w2 34 (hexOf e.sig ++ 34 :: after) h1 h2 (by decide)
    simp [memText, keyOf, valOf, evApply, evMember, verifyChar, startsWith, kId, kSig, hf, hcol,
      readHexField_hexOf 64 e.sig after s3 bsig]
  | kind =>
    simp only [MemFresh] at hf
    obtain ⟨d, ds, hd, hdw⟩ := decOf_head e.kind
    have hcol := eatColon_ws w1 w2 d (ds ++ after) h1 h2 hdw
    have hrd := readKind_decOf e.kind after s4 hafter
    rw [hd] at hrd
    simp [memText, keyOf, valOf, evApply, evMember, verifyChar, startsWith, kId, kSig, kKind, hf, hd, hcol]
    simp only [List.cons_append] at hrd
    rw [hrd]
  | createdAt =>
    simp only [MemFresh] at hf
    obtain ⟨d, ds, hd, hdw⟩ := decOf_head e.createdAt
    have hcol := eatColon_ws w1 w2 d (ds ++ after) h1 h2 hdw
    have hrd := readU64_decOf e.createdAt after s5 hafter
    rw [hd] at hrd
    simp [memText, keyOf, valOf, evApply, evMember, verifyChar, startsWith, kId, kSig, kKind, kTags, kPubkey, kContent,
      kCreatedAt, hf, hd, hcol]
    simp only [List.cons_append] at hrd
    rw [hrd]
  | tags =>
    simp only [MemFresh] at hf
    obtain ⟨x, hx⟩ := htj.head
    have hcol := eatColon_ws w1 w2 91 (x ++ after) h1 h2 (by decide)
    have hrt := readTagsArray_text e.tags tj after htj (cap - 144) s6 (by omega)
    rw [hx] at hrt
    cases hcs : st.contentStart with
    | none =>
      simp [memText, keyOf, valOf, evApply, evMember, verifyChar, startsWith, kId, kSig, kKind, kTags, hf, hx, hcol, hcs]
      simp only [List.cons_append] at hrt
      simp [hrt]
    | some cs =>
      obtain ⟨a, rfl⟩ := hok.cs cs hcs
      have hrc := readContent_spells e.content ec a cap (144 + (encodeTags e.tags).length) hec
        (by rw [encodeTags_length]; omega) (by rw [encodeTags_length]; omega)
      simp [memText, keyOf, valOf, evApply, evMember, verifyChar, startsWith, kId, kSig, kKind, kTags, hf, hx, hcol, hcs]
      simp only [List.cons_append] at hrt
      simp [hrt, hrc]
  | content =>
    simp only [MemFresh] at hf
    have hcol := eatColon_ws w1 w2 34 (ec ++ 34 :: after) h1 h2 (by decide)
    cases htg : st.tags with
    | none =>
      have hb := burnString_spells e.content ec after hec
      simp [memText, keyOf, valOf, evApply, evMember, verifyChar, startsWith, kId, kSig, kKind, kTags, kPubkey, kContent,
        hf, hcol, htg, hb]
    | some tb =>
      have htb := hok.tags tb htg
      subst htb
      have hrc := readContent_spells e.content ec after cap (144 + (encodeTags e.tags).length) hec
        (by rw [encodeTags_length]; omega) (by rw [encodeTags_length]; omega)
      simp [memText, keyOf, valOf, evApply, evMember, verifyChar, startsWith, kId, kSig, kKind, kTags, kPubkey, kContent,
        hf, hcol, htg, hrc]

/-! ### the member loop over any order -/

/-- the parser state is determined by which members have been seen -/
structure SeenInv (e : EventRec) (ec : Bytes) (seen : List EMem) (st : EvSt) : Prop where
  id : st.id = if EMem.id ∈ seen then some e.id else none
  pk : st.pk = if EMem.pubkey ∈ seen then some e.pubkey else none
  sig : st.sig = if EMem.sig ∈ seen then some e.sig else none
  kind : st.kind = if EMem.kind ∈ seen then some e.kind else none
  t : st.t = if EMem.createdAt ∈ seen then some e.createdAt else none
  tags : st.tags = if EMem.tags ∈ seen then some (encodeTags e.tags) else none
  content : st.content = if EMem.content ∈ seen ∧ EMem.tags ∈ seen then some e.content else none
  cs0 : EMem.content ∉ seen → st.contentStart = none
  cs1 : EMem.content ∈ seen → EMem.tags ∉ seen → ∃ a, st.contentStart = some (34 :: (ec ++ 34 :: a))
  cs2 : ∀ c, st.contentStart = some c → ∃ a, c = 34 :: (ec ++ 34 :: a)

theorem SeenInv_init (e : EventRec) (ec : Bytes) : SeenInv e ec [] {} := by
  constructor <;> simp

theorem SeenInv_fresh (e : EventRec) (ec : Bytes) (seen : List EMem) (st : EvSt) (h : SeenInv e ec seen st)
    (m : EMem) (hm : m ∉ seen) : MemFresh st m := by
  cases m <;> simp only [MemFresh]
  · rw [h.id, if_neg hm]
  · rw [h.pk, if_neg hm]
  · rw [h.kind, if_neg hm]
  · rw [h.t, if_neg hm]
  · rw [h.tags, if_neg hm]
  · rw [h.content, if_neg (fun hh => hm hh.1)]
  · rw [h.sig, if_neg hm]

theorem SeenInv_ok (e : EventRec) (ec : Bytes) (seen : List EMem) (st : EvSt) (h : SeenInv e ec seen st) :
    EvOk e ec st := by
  refine ⟨?_, h.cs2⟩
  intro tb htb
  rw [h.tags] at htb
  split at htb
  · simp only [Option.some.injEq] at htb; exact htb.symm
  · cases htb

theorem SeenInv_step (e : EventRec) (ec : Bytes) (seen : List EMem) (st : EvSt) (h : SeenInv e ec seen st)
    (m : EMem) (hm : m ∉ seen) (after : Bytes) : SeenInv e ec (m :: seen) (evApply e ec st m after) := by
  obtain ⟨i1, i2, i3, i4, i5, i6, i7, i8, i9, i10⟩ := h
  cases m
  case id | pubkey | sig | kind | createdAt =>
    constructor <;> simp_all [evApply]
  case tags =>
    have htn : st.tags = none := by rw [i6, if_neg hm]
    by_cases hcseen : EMem.content ∈ seen
    · obtain ⟨a, ha⟩ := i9 hcseen hm
      constructor <;> simp_all [evApply]
    · have hcn := i8 hcseen
      constructor <;> simp_all [evApply]
  case content =>
    have hcn : st.contentStart = none := i8 hm
    by_cases htseen : EMem.tags ∈ seen
    · constructor <;> simp_all [evApply]
    · constructor <;> simp_all [evApply]

/-- a member with its whitespace: before the key, before the colon, after the colon, after the value -/
structure MemSpec where
  w0 : Bytes
  w1 : Bytes
  w2 : Bytes
  w3 : Bytes
  m : EMem

def MemSpec.WsOk (x : MemSpec) : Prop := AllWs x.w0 ∧ AllWs x.w1 ∧ AllWs x.w2 ∧ AllWs x.w3

/-- the text of an event object after its `{`: the members in the given order, `}` after the last -/
def evText (e : EventRec) (tj ec : Bytes) : List MemSpec → Bytes → Bytes
  | [], R => R
  | [x], R => x.w0 ++ (memText e tj ec x.m x.w1 x.w2 ++ Sep x.w3 true R)
  | x :: y :: ms, R => x.w0 ++ (memText e tj ec x.m x.w1 x.w2 ++ Sep x.w3 false (evText e tj ec (y :: ms) R))

theorem memText_head (e : EventRec) (tj ec : Bytes) (m : EMem) (w1 w2 : Bytes) :
    ∃ x, memText e tj ec m w1 w2 = 34 :: x := ⟨_, rfl⟩

/-- the member loop accepts the members in any order and ends in the state that has seen them all -/
theorem evLoop_mems (e : EventRec) (tj ec : Bytes) (cap : Nat) (hc : ECtx e tj ec cap)
    (ms : List MemSpec) (hne : ms ≠ []) (hws : ∀ x ∈ ms, x.WsOk) (hnd : (ms.map (·.m)).Nodup)
    (seen : List EMem) (st : EvSt) (hinv : SeenInv e ec seen st) (hnew : ∀ x ∈ ms, x.m ∉ seen)
    (R : Bytes) (fuel : Nat) (hf : ms.length ≤ fuel) :
    ∃ st', evLoop fuel st (evText e tj ec ms R) cap = .ok (st', R) ∧
      SeenInv e ec ((ms.map (·.m)).reverse ++ seen) st' := by
  induction ms generalizing seen st fuel with
  | nil => exact absurd rfl hne
  | cons x rest ih =>
    obtain ⟨f, rfl⟩ : ∃ f, fuel = f + 1 := ⟨fuel - 1, by simp at hf; omega⟩
    obtain ⟨hw0, hw1, hw2, hw3⟩ := hws x (by simp)
    have hxnew := hnew x (by simp)
    have hfresh := SeenInv_fresh e ec seen st hinv x.m hxnew
    have hok := SeenInv_ok e ec seen st hinv
    simp only [List.map_cons, List.nodup_cons] at hnd
    cases rest with
    | nil =>
      have hmem := evMember_mem e tj ec cap hc st hok x.m hfresh x.w1 x.w2 hw1 hw2 (Sep x.w3 true R)
        (noLeadingDigit_sep x.w3 true R hw3)
      obtain ⟨y, hy⟩ := memText_head e tj ec x.m x.w1 x.w2
      have hws' : eatWs (x.w0 ++ (memText e tj ec x.m x.w1 x.w2 ++ Sep x.w3 true R)) =
          memText e tj ec x.m x.w1 x.w2 ++ Sep x.w3 true R := by
        rw [hy]; exact eatWs_ws_keep x.w0 34 _ hw0 (by decide)
      refine ⟨evApply e ec st x.m (Sep x.w3 true R), ?_, ?_⟩
      · simp only [evText]
        unfold evLoop
        rw [hws', hmem]
        simp only [nextObjectField_sep x.w3 true R hw3]
      · simpa using SeenInv_step e ec seen st hinv x.m hxnew (Sep x.w3 true R)
    | cons y ms =>
      have hmem := evMember_mem e tj ec cap hc st hok x.m hfresh x.w1 x.w2 hw1 hw2
        (Sep x.w3 false (evText e tj ec (y :: ms) R)) (noLeadingDigit_sep x.w3 false _ hw3)
      obtain ⟨z, hz⟩ := memText_head e tj ec x.m x.w1 x.w2
      have hws' : eatWs (x.w0 ++ (memText e tj ec x.m x.w1 x.w2 ++ Sep x.w3 false (evText e tj ec (y :: ms) R))) =
          memText e tj ec x.m x.w1 x.w2 ++ Sep x.w3 false (evText e tj ec (y :: ms) R) := by
        rw [hz]; exact eatWs_ws_keep x.w0 34 _ hw0 (by decide)
      have hstep := SeenInv_step e ec seen st hinv x.m hxnew (Sep x.w3 false (evText e tj ec (y :: ms) R))
      obtain ⟨st', hl, hi⟩ := ih (by simp) (fun z hz => hws z (by simp [hz])) hnd.2 (x.m :: seen) _ hstep
        (by
          intro z hz
          simp only [List.mem_cons, not_or]
          refine ⟨?_, hnew z (by simp [hz])⟩
          intro heq
          exact hnd.1 (List.mem_map.mpr ⟨z, hz, heq⟩))
        f (by simp at hf ⊢; omega)
      refine ⟨st', ?_, ?_⟩
      · simp only [evText]
        unfold evLoop
        rw [hws', hmem]
        simp only [nextObjectField_sep x.w3 false _ hw3]
        exact hl
      · have : (List.map (fun x => x.m) (x :: y :: ms)).reverse ++ seen =
            (List.map (fun x => x.m) (y :: ms)).reverse ++ (x.m :: seen) := by simp
        rw [this]; exact hi

theorem evText_length_ge (e : EventRec) (tj ec : Bytes) (ms : List MemSpec) (R : Bytes) :
    ((ms.map (·.m)).map (fun m => (valOf e tj ec m).length)).sum ≤ (evText e tj ec ms R).length := by
  induction ms with
  | nil => simp
  | cons x rest ih =>
    cases rest with
    | nil => simp [evText, memText]; omega
    | cons y ms' =>
      simp only [evText, memText, List.length_append, List.length_cons, Sep, List.map_cons, List.sum_cons] at ih ⊢
      omega

/-- **order independence and whitespace tolerance**: the seven members, each exactly once, in any
order, with any whitespace before each key, around each colon and after each value, after any
leading whitespace and `{` — parse to exactly the bytes `from_parts` writes for the event -/
theorem parseEvent_any_order (e : EventRec) (tj ec : Bytes) (buf : Bytes) (hc : ECtx e tj ec buf.length)
    (ms : List MemSpec) (hws : ∀ x ∈ ms, x.WsOk) (hnd : (ms.map (·.m)).Nodup)
    (hall : ∀ m : EMem, m ∈ ms.map (·.m)) (lead : Bytes) (hlead : AllWs lead) (R : Bytes) :
    parseEvent (lead ++ 123 :: evText e tj ec ms R) buf =
      .ok ((lead ++ 123 :: evText e tj ec ms R).length - R.length, (encodeEvent e).length,
        encodeEvent e ++ buf.drop (encodeEvent e).length) := by
  have hne : ms ≠ [] := by
    intro h; subst h; have := hall .id; simp at this
  have hlen7 : 7 ≤ ms.length := by
    have hsub : ∀ m ∈ [EMem.id, .pubkey, .kind, .createdAt, .tags, .content, .sig], m ∈ ms.map (·.m) :=
      fun m _ => hall m
    have := sum_le_of_nodup_subset (fun _ => 1) [EMem.id, .pubkey, .kind, .createdAt, .tags, .content, .sig]
      (ms.map (·.m)) (by decide) hsub
    rw [sum_ones, sum_ones] at this
    simpa using this
  obtain ⟨st', hloop, hinv⟩ := evLoop_mems e tj ec buf.length hc ms hne hws hnd [] {} (SeenInv_init e ec)
    (fun x _ => by simp) R ((evText e tj ec ms R).length + 1) (by
      -- every member contributes at least one byte
      have : ∀ (l : List MemSpec), l.length ≤ (evText e tj ec l R).length + 1 := by
        intro l
        induction l with
        | nil => simp
        | cons x rest ih =>
          cases rest with
          | nil => simp
          | cons y ms' =>
            simp only [evText, memText, List.length_append, List.length_cons, Sep] at ih ⊢
            omega
      have := this ms
      omega)
  have hmem : ∀ m : EMem, m ∈ (ms.map (·.m)).reverse ++ [] := by
    intro m; simpa using hall m
  have s := hc.sized
  have hlenE : (encodeEvent e).length = eventSize (tagsSize e.tags) e.content.length := by
    unfold encodeEvent
    rw [encodeEventWith_length _ _ _ _ _ _ _ s.id s.pk s.sig, encodeTags_length]
  have hcapb := hc.hcap
  have htsz : 4 ≤ tagsSize e.tags := by unfold tagsSize; omega
  -- the text is long enough: it holds 256 hex characters
  have hlong : 204 ≤ (evText e tj ec ms R).length := by
    have h1 := evText_length_ge e tj ec ms R
    have h2 := sum_le_of_nodup_subset (fun m => (valOf e tj ec m).length) [EMem.id, .pubkey, .sig]
      (ms.map (·.m)) (by decide) (fun m _ => hall m)
    have hL : ([EMem.id, .pubkey, .sig].map (fun m => (valOf e tj ec m).length)).sum = 2 * 32 + (0 + 1) + 1 + (2 * 32 + (0 + 1) + 1 + (2 * 64 + (0 + 1) + 1 + 0)) := by
      simp only [List.map_cons, List.map_nil, List.sum_cons, List.sum_nil, valOf, List.length_cons,
        List.length_append, hexOf_length, s.id, s.pk, s.sig, List.length_nil]
    rw [hL] at h2
    omega
  unfold parseEvent
  rw [if_neg (by simp only [List.length_append, List.length_cons]; omega), if_neg (by omega)]
  rw [eatWs_ws_keep lead 123 _ hlead (by decide)]
  simp only [verifyChar, if_true]
  rw [hloop]
  simp only [hinv.id, hinv.pk, hinv.sig, hinv.kind, hinv.t, hinv.tags, hinv.content, hmem, and_self, if_true]
  have henc : encodeEventWith e.id e.pubkey e.sig e.kind e.createdAt (encodeTags e.tags) e.content = encodeEvent e := rfl
  rw [henc]

end Pocket
