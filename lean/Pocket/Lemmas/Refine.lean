import Pocket.Spec.AbsStore
import Pocket.Lemmas.StoreAddr
/- Refinement: on every consistent state the concrete store model (which mirrors the code: victims
enumerated in the committed view and removed from the transaction view by offset, "anything left ⇒
replaced", markers folded tag by tag) computes exactly the abstract store of `Spec/AbsStore.lean` —
same reply, same retrievable events in the same order, same markers, same log. -/
namespace Pocket

/-- removing, from the transaction view `t`, the entries whose offset is that of a committed victim is
filtering `t` by the victim predicate — provided offsets identify committed entries and victims in `t`
are committed -/
theorem remove_victims (c t : List SEv) (p : SEv → Bool)
    (h : ∀ x ∈ t, ∀ v ∈ c, v.off = x.off → v = x) (hp : ∀ x ∈ t, p x = true → x ∈ c) :
    (t.filter fun x => !((c.filter p).any fun v => v.off == x.off)) = t.filter fun x => !p x := by
  apply List.filter_congr
  intro x hx
  congr 1
  by_cases hpx : p x = true
  · rw [hpx]
    simp only [List.any_eq_true, List.mem_filter, beq_iff_eq]
    exact ⟨x, ⟨hp x hx hpx, hpx⟩, rfl⟩
  · have hpf : p x = false := by simpa using hpx
    rw [hpf]
    simp only [List.any_eq_false, List.mem_filter, beq_iff_eq, and_imp]
    intro v hv hpv hoff
    have := h x hx v hv hoff
    subst this
    rw [hpv] at hpf; cases hpf

theorem map_filter_e (t : List SEv) (q : EventRec → Bool) :
    (t.filter fun x => q x.e).map (·.e) = (t.map (·.e)).filter q := by
  induction t with
  | nil => rfl
  | cons x t ih =>
    simp only [List.filter_cons, List.map_cons]
    split <;> simp [ih]

theorem find_map_e (c : List SEv) (id : Bytes) :
    (findById c id).map (·.e) = (c.map (·.e)).find? (fun x => x.id == id) := by
  unfold findById
  induction c with
  | nil => rfl
  | cons x c ih =>
    simp only [List.find?_cons, List.map_cons]
    split <;> simp [ih]

theorem any_map_e (c : List SEv) (q : EventRec → Bool) : (c.map (·.e)).any q = c.any (fun x => q x.e) := by
  induction c with
  | nil => rfl
  | cons x c ih => simp [ih]

theorem any_congr_mem {α : Type} (l : List α) (p q : α → Bool) (h : ∀ x ∈ l, p x = q x) : l.any p = l.any q := by
  induction l with
  | nil => rfl
  | cons x l ih =>
    simp only [List.any_cons, h x (by simp), ih (fun y hy => h y (by simp [hy]))]

/-- for a replaceable kind the address test is "same author and kind" -/
theorem atAddr_repl (k : Nat) (a : Bytes) (hk : isReplaceable k = true) (x : EventRec) :
    atAddr (k, a, []) x = (x.pubkey == a && x.kind == k) := by
  have := repl_holder_iff ⟨[], a, [], k, 0, [], []⟩ x hk
  have hae : addrOf (⟨[], a, [], k, 0, [], []⟩ : EventRec) = some (k, a, []) := by simp [addrOf, hk]
  rw [hae] at this
  unfold atAddr
  by_cases h : x.pubkey = a ∧ x.kind = k
  · have h2 := this.mp h
    simp [h2, h.1, h.2]
  · have h2 : addrOf x ≠ some (k, a, []) := fun hh => h (this.mpr hh)
    have h3 : (x.pubkey == a && x.kind == k) = false := by
      simp only [Bool.and_eq_false_iff, beq_eq_false_iff_ne, ne_eq]
      by_cases h1 : x.pubkey = a
      · exact Or.inr (fun hk' => h ⟨h1, hk'⟩)
      · exact Or.inl h1
    rw [h3]
    simpa using h2

theorem atAddr_param (k : Nat) (a d : Bytes) (hk : isParamReplaceable k = true) (x : EventRec) :
    atAddr (k, a, d) x = isParamHolder x k a d := by
  have := param_holder_iff x k a d hk
  unfold atAddr
  by_cases h : isParamHolder x k a d = true
  · rw [h]; simpa using this.mp h
  · have hf : isParamHolder x k a d = false := by simpa using h
    rw [hf]
    have h2 : addrOf x ≠ some (k, a, d) := fun hh => h (this.mpr hh)
    simpa using h2

/-- neither kind of address -/
theorem atAddr_none (k : Nat) (a d : Bytes) (h1 : isReplaceable k = false) (h2 : isParamReplaceable k = false)
    (x : EventRec) : atAddr (k, a, d) x = false := by
  unfold atAddr addrOf
  by_cases hx : isReplaceable x.kind = true
  · simp only [hx, if_true, beq_eq_false_iff_ne, ne_eq, Option.some.injEq, Prod.mk.injEq, not_and]
    intro hk; rw [hk] at hx; rw [hx] at h1; cases h1
  · simp only [hx, Bool.false_eq_true, if_false]
    by_cases hp : isParamReplaceable x.kind = true
    · simp only [hp, if_true]
      cases getValue x.tags KEY_D with
      | none => simp
      | some d' =>
        simp only [Option.map_some, beq_eq_false_iff_ne, ne_eq, Option.some.injEq, Prod.mk.injEq, not_and]
        intro hk; rw [hk] at hp; rw [hp] at h2; cases h2
    · simp [hp]

/-! ### pre-removal -/

theorem removeReplaceable_eq (c t : List SEv) (a : Bytes) (k u : Nat)
    (h : ∀ x ∈ t, ∀ v ∈ c, v.off = x.off → v = x)
    (hp : ∀ x ∈ t, (x.e.pubkey == a && x.e.kind == k && decide (x.e.createdAt ≤ u)) = true → x ∈ c) :
    removeReplaceable c t a k u =
      t.filter fun x => !(x.e.pubkey == a && x.e.kind == k && decide (x.e.createdAt ≤ u)) :=
  remove_victims c t (fun x => x.e.pubkey == a && x.e.kind == k && decide (x.e.createdAt ≤ u)) h hp

theorem removeParam_eq (c t : List SEv) (k : Nat) (a d : Bytes) (u : Nat)
    (h : ∀ x ∈ t, ∀ v ∈ c, v.off = x.off → v = x)
    (hp : ∀ x ∈ t, (isParamHolder x.e k a d && decide (x.e.createdAt ≤ u)) = true → x ∈ c) :
    removeParam c t k a d u = t.filter fun x => !(isParamHolder x.e k a d && decide (x.e.createdAt ≤ u)) :=
  remove_victims c t (fun x => isParamHolder x.e k a d && decide (x.e.createdAt ≤ u)) h hp

/-- the "replaced" verdict: a strictly newer holder of the address exists -/
theorem preRemove_flag (c : List SEv) (hu : Uniq c) (e : EventRec) :
    (preRemove c e).2 = (absPre (c.map (·.e)) e).2 := by
  unfold preRemove absPre addrOf
  by_cases h1 : isReplaceable e.kind = true
  · simp only [h1, if_true]
    rw [removeReplaceable_eq c c _ _ _ (fun x hx v hv hh => hu.off v hv x hx hh) (fun x hx _ => hx), any_map_e]
    rw [List.any_filter]
    apply any_congr_mem
    intro x _
    rw [atAddr_repl e.kind e.pubkey h1 x.e]
    by_cases hh : (x.e.pubkey == e.pubkey && x.e.kind == e.kind) = true
    · rw [hh]
      by_cases ht : x.e.createdAt ≤ e.createdAt
      · have : ¬ x.e.createdAt > e.createdAt := by omega
        simp [ht, this]
      · have : x.e.createdAt > e.createdAt := by omega
        simp [ht, this]
    · have hf : (x.e.pubkey == e.pubkey && x.e.kind == e.kind) = false := by simpa using hh
      rw [hf]; simp
  · simp only [h1, Bool.false_eq_true, if_false]
    by_cases h2 : isParamReplaceable e.kind = true
    · simp only [h2, if_true]
      cases hd : getValue e.tags KEY_D with
      | none => simp
      | some d =>
        simp only [Option.map_some]
        rw [removeParam_eq c c _ _ _ _ (fun x hx v hv hh => hu.off v hv x hx hh) (fun x hx _ => hx), any_map_e]
        rw [List.any_filter]
        apply any_congr_mem
        intro x _
        rw [atAddr_param e.kind e.pubkey d h2 x.e]
        by_cases hh : isParamHolder x.e e.kind e.pubkey d = true
        · rw [hh]
          by_cases ht : x.e.createdAt ≤ e.createdAt
          · have : ¬ x.e.createdAt > e.createdAt := by omega
            simp [ht, this]
          · have : x.e.createdAt > e.createdAt := by omega
            simp [ht, this]
        · have hf : isParamHolder x.e e.kind e.pubkey d = false := by simpa using hh
          rw [hf]; simp
    · simp [h2]

/-- when no newer holder exists, what pre-removal leaves is the retrievable events without the holders -/
theorem preRemove_live (c : List SEv) (hu : Uniq c) (e : EventRec) (hno : (preRemove c e).2 = false) :
    (preRemove c e).1.map (·.e) = (absPre (c.map (·.e)) e).1 := by
  have hflag := preRemove_flag c hu e
  rw [hno] at hflag
  unfold preRemove absPre addrOf at *
  by_cases h1 : isReplaceable e.kind = true
  · simp only [h1, if_true] at hflag ⊢
    rw [removeReplaceable_eq c c _ _ _ (fun x hx v hv hh => hu.off v hv x hx hh) (fun x hx _ => hx)]
    rw [← map_filter_e c (fun h => !(atAddr (e.kind, e.pubkey, []) h))]
    congr 1
    apply List.filter_congr
    intro x hx
    rw [atAddr_repl e.kind e.pubkey h1 x.e]
    have hnew := hflag.symm
    rw [any_map_e, List.any_eq_false] at hnew
    have := hnew x hx
    rw [atAddr_repl e.kind e.pubkey h1 x.e] at this
    by_cases hh : (x.e.pubkey == e.pubkey && x.e.kind == e.kind) = true
    · rw [hh] at this ⊢
      simp only [Bool.true_and, decide_eq_true_eq] at this
      have : x.e.createdAt ≤ e.createdAt := by omega
      simp [this]
    · have hf : (x.e.pubkey == e.pubkey && x.e.kind == e.kind) = false := by simpa using hh
      rw [hf]; simp
  · simp only [h1, Bool.false_eq_true, if_false] at hflag ⊢
    by_cases h2 : isParamReplaceable e.kind = true
    · simp only [h2, if_true] at hflag ⊢
      cases hd : getValue e.tags KEY_D with
      | none => simp
      | some d =>
        rw [hd] at hflag
        simp only [Option.map_some] at hflag ⊢
        rw [removeParam_eq c c _ _ _ _ (fun x hx v hv hh => hu.off v hv x hx hh) (fun x hx _ => hx)]
        rw [← map_filter_e c (fun h => !(atAddr (e.kind, e.pubkey, d) h))]
        congr 1
        apply List.filter_congr
        intro x hx
        rw [atAddr_param e.kind e.pubkey d h2 x.e]
        have hnew := hflag.symm
        rw [any_map_e, List.any_eq_false] at hnew
        have := hnew x hx
        rw [atAddr_param e.kind e.pubkey d h2 x.e] at this
        by_cases hh : isParamHolder x.e e.kind e.pubkey d = true
        · rw [hh] at this ⊢
          simp only [Bool.true_and, decide_eq_true_eq] at this
          have : x.e.createdAt ≤ e.createdAt := by omega
          simp [this]
        · have hf : isParamHolder x.e e.kind e.pubkey d = false := by simpa using hh
          rw [hf]; simp
    · simp [h2]

/-! ### deletion requests -/

/-- the transaction view while a deletion request is handled: committed entries and the request itself -/
structure TxnView (c : List SEv) (nw : SEv) (t : List SEv) : Prop where
  sub : ∀ x ∈ t, x ∈ c ∨ x = nw
  fresh : ∀ v ∈ c, v.off ≠ nw.off
  k5 : nw.e.kind = 5

theorem TxnView.offs {c t : List SEv} {nw : SEv} (h : TxnView c nw t) (hu : Uniq c) :
    ∀ x ∈ t, ∀ v ∈ c, v.off = x.off → v = x := by
  intro x hx v hv hoff
  rcases h.sub x hx with hc | rfl
  · exact hu.off v hv x hc hoff
  · exact absurd hoff (h.fresh v hv)

theorem TxnView.filter {c t : List SEv} {nw : SEv} (h : TxnView c nw t) (q : SEv → Bool) : TxnView c nw (t.filter q) :=
  ⟨fun x hx => h.sub x (List.mem_filter.mp hx).1, h.fresh, h.k5⟩

theorem kind5_not_repl : isReplaceable 5 = false ∧ isParamReplaceable 5 = false := by decide

def DelCorr (o : DelOut) (a : AbsDel) (c : List SEv) (nw : SEv) : Prop :=
  match o, a with
  | .ok st, .ok l di da => st.live.map (·.e) = l ∧ st.delIds = di ∧ st.delAddrs = da ∧ TxnView c nw st.live
  | .invalid, .invalid => True
  | .lmdbErr, .err => True
  | _, _ => False

theorem removeAt_refine (c : List SEv) (hu : Uniq c) (nw : SEv) (t : List SEv) (hv : TxnView c nw t)
    (kind : Nat) (author d0 : Bytes) (u : Nat) :
    (removeAt c t kind author (normD kind d0) u).map (·.e) =
      (t.map (·.e)).filter (fun x => !(atAddr (kind, author, normD kind d0) x && decide (x.createdAt ≤ u))) ∧
    TxnView c nw (removeAt c t kind author (normD kind d0) u) := by
  have hoffs := hv.offs hu
  unfold removeAt
  by_cases h1 : isReplaceable kind = true
  · simp only [h1, if_true]
    have hnd : normD kind d0 = [] := by simp [normD, h1]
    rw [hnd]
    have hp : ∀ x ∈ t, (x.e.pubkey == author && x.e.kind == kind && decide (x.e.createdAt ≤ u)) = true → x ∈ c := by
      intro x hx hpx
      rcases hv.sub x hx with hc | rfl
      · exact hc
      · simp only [Bool.and_eq_true, beq_iff_eq] at hpx
        rw [← hpx.1.2, hv.k5] at h1
        exact absurd h1 (by decide)
    rw [removeReplaceable_eq c t author kind u hoffs hp]
    refine ⟨?_, hv.filter _⟩
    rw [← map_filter_e t (fun x => !(atAddr (kind, author, []) x && decide (x.createdAt ≤ u)))]
    congr 1
    apply List.filter_congr
    intro x _
    rw [atAddr_repl kind author h1 x.e]
  · simp only [h1, Bool.false_eq_true, if_false]
    have hnd : normD kind d0 = d0 := by simp [normD, h1]
    rw [hnd]
    by_cases h2 : isParamReplaceable kind = true
    · simp only [h2, if_true]
      have hp : ∀ x ∈ t, (isParamHolder x.e kind author d0 && decide (x.e.createdAt ≤ u)) = true → x ∈ c := by
        intro x hx hpx
        rcases hv.sub x hx with hc | rfl
        · exact hc
        · simp only [Bool.and_eq_true] at hpx
          have := hpx.1
          unfold isParamHolder at this
          simp only [Bool.and_eq_true, beq_iff_eq] at this
          rw [← this.1.2, hv.k5] at h2
          exact absurd h2 (by decide)
      rw [removeParam_eq c t kind author d0 u hoffs hp]
      refine ⟨?_, hv.filter _⟩
      rw [← map_filter_e t (fun x => !(atAddr (kind, author, d0) x && decide (x.createdAt ≤ u)))]
      congr 1
      apply List.filter_congr
      intro x _
      rw [atAddr_param kind author d0 h2 x.e]
    · simp only [h2, Bool.false_eq_true, if_false]
      refine ⟨?_, hv⟩
      have h1' : isReplaceable kind = false := by simpa using h1
      have h2' : isParamReplaceable kind = false := by simpa using h2
      symm
      apply List.filter_eq_self.mpr
      intro x _
      rw [atAddr_none kind author d0 h1' h2' x]
      rfl

theorem delTag_refine (c : List SEv) (hu : Uniq c) (nw : SEv) (req : EventRec) (tag : List Bytes) (st : DelSt)
    (hv : TxnView c nw st.live) :
    DelCorr (delTag c req tag st) (absDelTag (c.map (·.e)) req tag (st.live.map (·.e)) st.delIds st.delAddrs) c nw := by
  unfold delTag absDelTag
  match tag with
  | [] => exact ⟨rfl, rfl, rfl, hv⟩
  | [_] => exact ⟨rfl, rfl, rfl, hv⟩
  | name :: v :: _ =>
    simp only []
    by_cases hE : (name == KEY_E) = true
    · simp only [hE, if_true]
      cases hrd : readHex 32 v with
      | ok id =>
        simp only []
        unfold delE
        by_cases hself : (id == req.id) = true
        · simp only [hself, if_true]; exact ⟨rfl, rfl, rfl, hv⟩
        · simp only [hself, Bool.false_eq_true, if_false]
          have hf := find_map_e c id
          cases hfc : findById c id with
          | none =>
            rw [hfc] at hf
            simp only [Option.map_none] at hf
            rw [← hf]
            exact ⟨rfl, rfl, rfl, hv⟩
          | some target =>
            rw [hfc] at hf
            simp only [Option.map_some] at hf
            rw [← hf]
            simp only []
            by_cases hpk : (target.e.pubkey != req.pubkey) = true
            · simp only [hpk, if_true]; trivial
            · simp only [hpk, Bool.false_eq_true, if_false]
              refine ⟨?_, rfl, rfl, ?_⟩
              · exact map_filter_e st.live (fun x => x.id != id)
              · exact hv.filter _
      | err => exact ⟨rfl, rfl, rfl, hv⟩
      | panic => exact ⟨rfl, rfl, rfl, hv⟩
    · simp only [hE, Bool.false_eq_true, if_false]
      by_cases hA : (name == KEY_A) = true
      · simp only [hA, if_true]
        cases hpa : parseAddr v with
        | none => exact ⟨rfl, rfl, rfl, hv⟩
        | some k =>
          obtain ⟨kind, author, d0⟩ := k
          simp only []
          unfold delA
          by_cases hau : (author != req.pubkey) = true
          · simp only [hau, if_true]; trivial
          · simp only [hau, Bool.false_eq_true, if_false]
            by_cases hlong : addrKeyTooLong (normD kind d0) = true
            · simp only [hlong, if_true]; trivial
            · simp only [hlong, Bool.false_eq_true, if_false]
              obtain ⟨h1, h2⟩ := removeAt_refine c hu nw st.live hv kind author d0 req.createdAt
              exact ⟨h1, rfl, rfl, h2⟩
      · simp only [hA, Bool.false_eq_true, if_false]
        exact ⟨rfl, rfl, rfl, hv⟩

theorem handleDeletion_refine (c : List SEv) (hu : Uniq c) (nw : SEv) (req : EventRec) (tags : TagsRec) (st : DelSt)
    (hv : TxnView c nw st.live) :
    DelCorr (handleDeletion c req tags st)
      (absDeletion (c.map (·.e)) req tags (st.live.map (·.e)) st.delIds st.delAddrs) c nw := by
  induction tags generalizing st with
  | nil => exact ⟨rfl, rfl, rfl, hv⟩
  | cons tag rest ih =>
    have h1 := delTag_refine c hu nw req tag st hv
    unfold handleDeletion absDeletion
    cases ho : delTag c req tag st with
    | ok st' =>
      rw [ho] at h1
      cases ha : absDelTag (c.map (·.e)) req tag (st.live.map (·.e)) st.delIds st.delAddrs with
      | ok l di da =>
        rw [ha] at h1
        obtain ⟨e1, e2, e3, hv'⟩ := h1
        simp only []
        rw [← e1, ← e2, ← e3]
        exact ih st' hv'
      | invalid => rw [ha] at h1; exact absurd h1 (by simp [DelCorr])
      | err => rw [ha] at h1; exact absurd h1 (by simp [DelCorr])
    | invalid =>
      rw [ho] at h1
      cases ha : absDelTag (c.map (·.e)) req tag (st.live.map (·.e)) st.delIds st.delAddrs with
      | ok l di da => rw [ha] at h1; exact absurd h1 (by simp [DelCorr])
      | invalid => trivial
      | err => rw [ha] at h1; exact absurd h1 (by simp [DelCorr])
    | lmdbErr =>
      rw [ho] at h1
      cases ha : absDelTag (c.map (·.e)) req tag (st.live.map (·.e)) st.delIds st.delAddrs with
      | ok l di da => rw [ha] at h1; exact absurd h1 (by simp [DelCorr])
      | invalid => rw [ha] at h1; exact absurd h1 (by simp [DelCorr])
      | err => trivial

/-! ### the whole call -/

theorem coveredBy_eq (db : Db) (e : EventRec) : delByAddr db e = coveredBy db.delAddrs e := by
  unfold delByAddr coveredBy
  rw [addrMarker_eq]
  cases (addrOf e).bind (delAddrGet db.delAddrs) <;> rfl

theorem txnLive_view (s : Store) (hi : Inv s) (e : EventRec) (h5 : e.kind = 5) :
    TxnView s.db.live ⟨align8 s.end, e⟩ (txnLive s e) := by
  refine ⟨?_, ?_, h5⟩
  · intro x hx
    unfold txnLive at hx
    split at hx
    · exact Or.inl ((preRemove_sublist s.db.live e).subset hx)
    · rcases List.mem_append.mp hx with h | h
      · exact Or.inl ((preRemove_sublist s.db.live e).subset h)
      · simp only [List.mem_singleton] at h; exact Or.inr h
  · intro v hv
    have := hi.logBound v (hi.liveInLog v hv)
    have := eventLen_pos v.e
    have := align8_ge s.end
    simp only; omega

theorem txnLive_map (s : Store) (hi : Inv s) (e : EventRec) (hno : (preRemove s.db.live e).2 = false) :
    (txnLive s e).map (·.e) =
      (if isEphemeral e.kind then (absPre (s.db.live.map (·.e)) e).1 else (absPre (s.db.live.map (·.e)) e).1 ++ [e]) := by
  have hl := preRemove_live s.db.live (Uniq_of_Inv s hi) e hno
  unfold txnLive
  split
  · exact hl
  · rw [List.map_append, hl]; rfl

theorem isSome_findById (l : List SEv) (id : Bytes) :
    (findById l id).isSome = (l.map (·.e)).any (fun x => x.id == id) := by
  rw [any_map_e]
  unfold findById
  induction l with
  | nil => rfl
  | cons x l ih =>
    simp only [List.find?_cons, List.any_cons]
    by_cases hx : (x.e.id == id) = true
    · simp [hx]
    · have : (x.e.id == id) = false := by simpa using hx
      simp only [this, Bool.false_or]; exact ih

/-- the refusals before anything is written, in the abstract store's terms -/
theorem refusal_abs (s : Store) (e : EventRec) :
    refusal s.db e =
      (if (s.db.live.map (·.e)).any (fun x => x.id == e.id) then some .duplicate
       else if s.db.delIds.contains e.id then some .deleted
       else if coveredBy s.db.delAddrs e then some .deleted
       else none) := by
  unfold refusal
  rw [isSome_findById, coveredBy_eq]

/-- **refinement of `store_event`**: in every consistent state the concrete model and the abstract store
give the same reply and the same next state -/
theorem storeEvent_refines (s : Store) (hi : Inv s) (e : EventRec) :
    (storeEvent s e).1 = (absStore (Abs.of s) e).1 ∧ Abs.of (storeEvent s e).2 = (absStore (Abs.of s) e).2 := by
  have hu := Uniq_of_Inv s hi
  have hr := refusal_abs s e
  have hflag := preRemove_flag s.db.live hu e
  have hL : (Abs.of s).live = s.db.live.map (·.e) := rfl
  have hDi : (Abs.of s).delIds = s.db.delIds := rfl
  have hDa : (Abs.of s).delAddrs = s.db.delAddrs := rfl
  by_cases h1 : (s.db.live.map (·.e)).any (fun x => x.id == e.id) = true
  · have hs : storeEvent s e = (.duplicate, s) := by
      unfold storeEvent; rw [hr]; simp only [h1, if_true]
    have ha : absStore (Abs.of s) e = (.duplicate, Abs.of s) := by
      unfold absStore; rw [hL]; simp only [h1, if_true]
    rw [hs, ha]; exact ⟨rfl, rfl⟩
  have h1' : (s.db.live.map (·.e)).any (fun x => x.id == e.id) = false := by simpa using h1
  by_cases h2 : s.db.delIds.contains e.id = true
  · have hs : storeEvent s e = (.deleted, s) := by
      unfold storeEvent; rw [hr]; simp only [h1', h2, Bool.false_eq_true, if_false, if_true]
    have ha : absStore (Abs.of s) e = (.deleted, Abs.of s) := by
      unfold absStore; rw [hL, hDi]; simp only [h1', h2, Bool.false_eq_true, if_false, if_true]
    rw [hs, ha]; exact ⟨rfl, rfl⟩
  have h2' : s.db.delIds.contains e.id = false := by simpa using h2
  by_cases h3 : coveredBy s.db.delAddrs e = true
  · have hs : storeEvent s e = (.deleted, s) := by
      unfold storeEvent; rw [hr]; simp only [h1', h2', h3, Bool.false_eq_true, if_false, if_true]
    have ha : absStore (Abs.of s) e = (.deleted, Abs.of s) := by
      unfold absStore; rw [hL, hDi, hDa]; simp only [h1', h2', h3, Bool.false_eq_true, if_false, if_true]
    rw [hs, ha]; exact ⟨rfl, rfl⟩
  have h3' : coveredBy s.db.delAddrs e = false := by simpa using h3
  have hrn : refusal s.db e = none := by
    rw [hr]; simp only [h1', h2', h3', Bool.false_eq_true, if_false]
  by_cases h4 : (preRemove s.db.live e).2 = true
  · have hs : storeEvent s e = (.replaced, s) := by
      unfold storeEvent; rw [hrn]; simp only [h4, if_true]
    have ha : absStore (Abs.of s) e = (.replaced, Abs.of s) := by
      unfold absStore; rw [hL, hDi, hDa, ← hflag]
      simp only [h1', h2', h3', h4, Bool.false_eq_true, if_false, if_true]
    rw [hs, ha]; exact ⟨rfl, rfl⟩
  have h4' : (preRemove s.db.live e).2 = false := by simpa using h4
  have h4a : (absPre (s.db.live.map (·.e)) e).2 = false := by rw [← hflag]; exact h4'
  have htl := txnLive_map s hi e h4'
  by_cases h5 : e.kind = 5
  · have hv := txnLive_view s hi e h5
    have href := handleDeletion_refine s.db.live hu ⟨align8 s.end, e⟩ e e.tags
      ⟨txnLive s e, s.db.delIds, s.db.delAddrs⟩ hv
    simp only [] at href
    rw [htl] at href
    have hsU : storeEvent s e =
        (match handleDeletion s.db.live e e.tags ⟨txnLive s e, s.db.delIds, s.db.delAddrs⟩ with
          | .ok st => (.ok (align8 s.end), commitDel s e st)
          | .invalid => (.invalidDelete, appendLog s e)
          | .lmdbErr => (.other, appendLog s e)) := by
      unfold storeEvent; rw [hrn]; simp only [h4', Bool.false_eq_true, if_false, h5, if_true]
      cases handleDeletion s.db.live e e.tags ⟨txnLive s e, s.db.delIds, s.db.delAddrs⟩ <;> rfl
    have haU : absStore (Abs.of s) e =
        (match absDeletion (s.db.live.map (·.e)) e e.tags
            (if isEphemeral e.kind then (absPre (s.db.live.map (·.e)) e).1 else (absPre (s.db.live.map (·.e)) e).1 ++ [e])
            s.db.delIds s.db.delAddrs with
          | .ok l di da => (.ok (align8 s.end),
              { live := l, delIds := di, delAddrs := da, log := s.log.map (fun x => (x.off, x.e)) ++ [(align8 s.end, e)],
                «end» := align8 s.end + eventLen e })
          | .invalid => (.invalidDelete,
              { live := s.db.live.map (·.e), delIds := s.db.delIds, delAddrs := s.db.delAddrs,
                log := s.log.map (fun x => (x.off, x.e)) ++ [(align8 s.end, e)], «end» := align8 s.end + eventLen e })
          | .err => (.other,
              { live := s.db.live.map (·.e), delIds := s.db.delIds, delAddrs := s.db.delAddrs,
                log := s.log.map (fun x => (x.off, x.e)) ++ [(align8 s.end, e)], «end» := align8 s.end + eventLen e })) := by
      unfold absStore
      simp only [Abs.of, h1', h2', h3', h4a, Bool.false_eq_true, if_false, h5, if_true]
      cases absDeletion (s.db.live.map (·.e)) e e.tags
        (if isEphemeral 5 = true then (absPre (s.db.live.map (·.e)) e).1 else (absPre (s.db.live.map (·.e)) e).1 ++ [e])
        s.db.delIds s.db.delAddrs <;> rfl
    rw [hsU, haU]
    cases ho : handleDeletion s.db.live e e.tags ⟨txnLive s e, s.db.delIds, s.db.delAddrs⟩ with
    | ok st =>
      rw [ho] at href
      cases ha : absDeletion (s.db.live.map (·.e)) e e.tags
          (if isEphemeral e.kind then (absPre (s.db.live.map (·.e)) e).1 else (absPre (s.db.live.map (·.e)) e).1 ++ [e])
          s.db.delIds s.db.delAddrs with
      | ok l di da =>
        rw [ha] at href
        obtain ⟨e1, e2, e3, _⟩ := href
        refine ⟨rfl, ?_⟩
        simp only [Abs.of, commitDel, appendLog, List.map_append, List.map_cons, List.map_nil, e1, e2, e3]
      | invalid => rw [ha] at href; exact absurd href (by simp [DelCorr])
      | err => rw [ha] at href; exact absurd href (by simp [DelCorr])
    | invalid =>
      rw [ho] at href
      cases ha : absDeletion (s.db.live.map (·.e)) e e.tags
          (if isEphemeral e.kind then (absPre (s.db.live.map (·.e)) e).1 else (absPre (s.db.live.map (·.e)) e).1 ++ [e])
          s.db.delIds s.db.delAddrs with
      | ok l di da => rw [ha] at href; exact absurd href (by simp [DelCorr])
      | invalid => exact ⟨rfl, by simp only [Abs.of, appendLog, List.map_append, List.map_cons, List.map_nil]⟩
      | err => rw [ha] at href; exact absurd href (by simp [DelCorr])
    | lmdbErr =>
      rw [ho] at href
      cases ha : absDeletion (s.db.live.map (·.e)) e e.tags
          (if isEphemeral e.kind then (absPre (s.db.live.map (·.e)) e).1 else (absPre (s.db.live.map (·.e)) e).1 ++ [e])
          s.db.delIds s.db.delAddrs with
      | ok l di da => rw [ha] at href; exact absurd href (by simp [DelCorr])
      | invalid => rw [ha] at href; exact absurd href (by simp [DelCorr])
      | err => exact ⟨rfl, by simp only [Abs.of, appendLog, List.map_append, List.map_cons, List.map_nil]⟩
  · have hs : storeEvent s e = (.ok (align8 s.end), commitPlain s e) := by
      unfold storeEvent; rw [hrn]; simp only [h4', Bool.false_eq_true, if_false, h5]
    have ha : absStore (Abs.of s) e = (.ok (align8 s.end),
        { live := (if isEphemeral e.kind then (absPre (s.db.live.map (·.e)) e).1 else (absPre (s.db.live.map (·.e)) e).1 ++ [e]),
          delIds := s.db.delIds, delAddrs := s.db.delAddrs,
          log := s.log.map (fun x => (x.off, x.e)) ++ [(align8 s.end, e)], «end» := align8 s.end + eventLen e }) := by
      unfold absStore
      simp only [Abs.of, h1', h2', h3', h4a, Bool.false_eq_true, if_false, h5]
    rw [hs, ha]
    refine ⟨rfl, ?_⟩
    simp only [Abs.of, commitPlain, appendLog, List.map_append, List.map_cons, List.map_nil, htl]

theorem removeEvent_refines (s : Store) (id : Bytes) : Abs.of (removeEvent s id) = absRemove (Abs.of s) id := by
  simp only [Abs.of, removeEvent, absRemove, removeId]
  congr 1
  exact map_filter_e s.db.live (fun x => x.id != id)

/-- an operation of the abstract machine (rebuild and vanish are related to it separately) -/
inductive AOp where
  | store (e : EventRec)
  | remove (id : Bytes)
  | reopen

def AOp.toOp : AOp → Op
  | .store e => .store e
  | .remove id => .remove id
  | .reopen => .reopen

def absStep (a : Abs) : AOp → Abs
  | .store e => (absStore a e).2
  | .remove id => absRemove a id
  | .reopen => a

/-- **refinement over whole histories**: after any sequence of stores (accepted or refused, deletion
requests included), removals and reopens, the concrete model's state is the abstract store's state -/
theorem run_refines (ops : List AOp) (s : Store) (hi : Inv s) :
    Abs.of (run s (ops.map AOp.toOp)) = ops.foldl absStep (Abs.of s) := by
  induction ops generalizing s with
  | nil => rfl
  | cons op ops ih =>
    simp only [List.map_cons, run, List.foldl_cons]
    have hstep : Abs.of (step s op.toOp) = absStep (Abs.of s) op := by
      cases op with
      | store e => exact (storeEvent_refines s hi e).2
      | remove id => exact removeEvent_refines s id
      | reopen => rfl
    rw [← hstep]
    exact ih (step s op.toOp) (Inv_step s op.toOp hi)

end Pocket
