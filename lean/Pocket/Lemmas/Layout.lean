import Pocket.Model.Filter
/- Layout lemmas: reading back what the encoders wrote (shared by C01, C02, C03, C06, C07, C19). -/
namespace Pocket

@[simp] theorem le16_length (n : Nat) : (le16 n).length = 2 := rfl
@[simp] theorem le32_length (n : Nat) : (le32 n).length = 4 := rfl
@[simp] theorem le64_length (n : Nat) : (le64 n).length = 8 := by simp [le64]

theorem leVal_le16 (n : Nat) : leVal (le16 n) = n % 65536 := by
  simp [le16, leVal]; omega
theorem leVal_le32 (n : Nat) : leVal (le32 n) = n % 4294967296 := by
  simp [le32, leVal]; omega
theorem leVal_le64 (n : Nat) : leVal (le64 n) = n % 18446744073709551616 := by
  simp [le64, le32, leVal]; omega

theorem drop_add_left (pre rest : Bytes) (k : Nat) :
    (pre ++ rest).drop (pre.length + k) = rest.drop k := by
  rw [List.drop_append]
  have : List.drop (pre.length + k) pre = [] := List.drop_eq_nil_of_le (by omega)
  rw [this]; simp

theorem off_le_of_drop (b : Bytes) (off : Nat) (pre rest : Bytes) (h : b.drop off = pre ++ rest)
    (hp : 0 < pre.length) : off + pre.length ≤ b.length := by
  have hl : (b.drop off).length = pre.length + rest.length := by rw [h]; simp
  rw [List.length_drop] at hl; omega

/-- reading `w > 0` bytes at `off` when the input at `off` starts with `enc` of length `w` -/
theorem rdN_of_drop (w : Nat) (b : Bytes) (off : Nat) (enc rest : Bytes)
    (h : b.drop off = enc ++ rest) (hw : enc.length = w) (hpos : 0 < w) :
    rdN w b off = .ok (leVal enc) := by
  have hlen : off + w ≤ b.length := by
    have := off_le_of_drop b off enc rest h (by omega); omega
  unfold rdN
  simp only [hlen, if_true, h]
  rw [← hw, List.take_left' rfl]

theorem rd16_of_drop (b : Bytes) (off n : Nat) (rest : Bytes) (h : b.drop off = le16 n ++ rest) :
    rd16 b off = .ok (n % 65536) := by
  rw [rd16, rdN_of_drop 2 b off (le16 n) rest h rfl (by omega), leVal_le16]
theorem rd32_of_drop (b : Bytes) (off n : Nat) (rest : Bytes) (h : b.drop off = le32 n ++ rest) :
    rd32 b off = .ok (n % 4294967296) := by
  rw [rd32, rdN_of_drop 4 b off (le32 n) rest h rfl (by omega), leVal_le32]
theorem rd64_of_drop (b : Bytes) (off n : Nat) (rest : Bytes) (h : b.drop off = le64 n ++ rest) :
    rd64 b off = .ok (n % 18446744073709551616) := by
  rw [rd64, rdN_of_drop 8 b off (le64 n) rest h rfl (by omega), leVal_le64]

theorem slice_of_drop (b : Bytes) (off : Nat) (s rest : Bytes) (h : b.drop off = s ++ rest)
    (hoff : off ≤ b.length) : slice b off s.length = .ok s := by
  have hl : (b.drop off).length = s.length + rest.length := by rw [h]; simp
  have hlen : off + s.length ≤ b.length := by rw [List.length_drop] at hl; omega
  unfold slice
  simp only [hlen, if_true, h, List.take_left']

theorem drop_drop_of (b : Bytes) (off k : Nat) (pre rest : Bytes) (h : b.drop off = pre ++ rest)
    (hk : pre.length = k) : b.drop (off + k) = rest := by
  rw [← List.drop_drop, h, List.drop_left' hk]

@[simp] theorem encStr_length (s : Bytes) : (encStr s).length = 2 + s.length := by simp [encStr]
theorem encStrs_length (ss : List Bytes) : (encStrs ss).length = strsSize ss := by
  induction ss with
  | nil => rfl
  | cons s ss ih => simp [encStrs, strsSize, ih]
theorem encTag_length (t : List Bytes) : (encTag t).length = tagSize t := by
  simp [encTag, tagSize, encStrs_length]
theorem encTagsBody_length (ts : TagsRec) : (encTagsBody ts).length = tagsBodySize ts := by
  induction ts with
  | nil => rfl
  | cons t ts ih => simp [encTagsBody, tagsBodySize, ih, encTag_length]
theorem encOffsets_length (p : Nat) (ts : TagsRec) : (encOffsets p ts).length = 2 * ts.length := by
  induction ts generalizing p with
  | nil => rfl
  | cons t ts ih => simp [encOffsets, ih]; omega
theorem encodeTags_length (ts : TagsRec) : (encodeTags ts).length = tagsSize ts := by
  simp [encodeTags, tagsSize, encOffsets_length, encTagsBody_length]; omega

/-- every string is shorter than 2^16 (implied by a section that fits) -/
def StrsSmall (ss : List Bytes) : Prop := ∀ s ∈ ss, s.length < 65536

/-- `TagsStringIter` reads back the strings of an encoded tag -/
theorem readStrs_enc (b : Bytes) (ss : List Bytes) (off : Nat) (rest : Bytes)
    (h : b.drop off = encStrs ss ++ rest) (hs : StrsSmall ss) :
    readStrs b ss.length off = .ok ss := by
  induction ss generalizing off with
  | nil => rfl
  | cons s ss ih =>
    have hs1 : s.length < 65536 := hs s (by simp)
    have hs2 : StrsSmall ss := fun x hx => hs x (by simp [hx])
    simp only [encStrs, encStr, List.append_assoc] at h
    have r1 := rd16_of_drop b off s.length _ h
    rw [Nat.mod_eq_of_lt hs1] at r1
    have h2 : b.drop (off + 2) = s ++ (encStrs ss ++ rest) := drop_drop_of b off 2 _ _ h rfl
    have hoff2 : off + 2 ≤ b.length := off_le_of_drop b off (le16 s.length) _ h (by simp)
    have r2 := slice_of_drop b (off + 2) s _ h2 hoff2
    have h3 : b.drop (off + 2 + s.length) = encStrs ss ++ rest := drop_drop_of b (off + 2) s.length _ _ h2 rfl
    simp only [List.length_cons, readStrs, r1, r2, ih (off + 2 + s.length) h3 hs2]

theorem encOffsets_drop (p : Nat) (ts : TagsRec) (i : Nat) :
    (encOffsets p ts).drop (2 * i) = encOffsets (p + tagsBodySize (ts.take i)) (ts.drop i) := by
  induction ts generalizing p i with
  | nil => simp [encOffsets, tagsBodySize]
  | cons t ts ih =>
    cases i with
    | zero => simp [tagsBodySize]
    | succ i =>
      simp only [encOffsets, List.take_succ_cons, List.drop_succ_cons, tagsBodySize]
      have : 2 * (i + 1) = (le16 p).length + 2 * i := by simp; omega
      rw [this, drop_add_left, ih]
      congr 1; omega

theorem encTagsBody_drop (ts : TagsRec) (i : Nat) :
    (encTagsBody ts).drop (tagsBodySize (ts.take i)) = encTagsBody (ts.drop i) := by
  induction ts generalizing i with
  | nil => simp [encTagsBody, tagsBodySize]
  | cons t ts ih =>
    cases i with
    | zero => simp [tagsBodySize]
    | succ i =>
      simp only [encTagsBody, List.take_succ_cons, List.drop_succ_cons, tagsBodySize]
      rw [← encTag_length t, drop_add_left, ih]

theorem tagsBodySize_take_le (ts : TagsRec) (i : Nat) : tagsBodySize (ts.take i) ≤ tagsBodySize ts := by
  induction ts generalizing i with
  | nil => simp [tagsBodySize]
  | cons t ts ih =>
    cases i with
    | zero => simp [tagsBodySize]
    | succ i => simp only [List.take_succ_cons, tagsBodySize]; have := ih i; omega

theorem tagSize_le_body (ts : TagsRec) (t : List Bytes) (h : t ∈ ts) : tagSize t ≤ tagsBodySize ts := by
  induction ts with
  | nil => cases h
  | cons x ts ih =>
    simp only [tagsBodySize]
    rcases List.mem_cons.mp h with h | h
    · subst h; omega
    · have := ih h; omega

theorem str_le_strsSize (ss : List Bytes) (s : Bytes) (h : s ∈ ss) : s.length + 2 ≤ strsSize ss := by
  induction ss with
  | nil => cases h
  | cons x ss ih =>
    simp only [strsSize]
    rcases List.mem_cons.mp h with h | h
    · subst h; omega
    · have := ih h; omega

theorem length_le_strsSize (ss : List Bytes) : 2 * ss.length ≤ strsSize ss := by
  induction ss with
  | nil => simp [strsSize]
  | cons x ss ih => simp only [strsSize, List.length_cons]; omega

/-- a tag section that fits in a `u16` has only small tags, counts and strings -/
theorem small_of_fits (ts : TagsRec) (h : tagsSize ts ≤ 65535) :
    ts.length < 65536 ∧ ∀ t ∈ ts, t.length < 65536 ∧ StrsSmall t := by
  unfold tagsSize at h
  refine ⟨by omega, fun t ht => ?_⟩
  have h1 := tagSize_le_body ts t ht
  unfold tagSize at h1
  have h2 := length_le_strsSize t
  refine ⟨by omega, fun s hs => ?_⟩
  have := str_le_strsSize t s hs
  omega

/-- `TagsIter` reads back the tags of an encoded section -/
theorem readTagsFrom_enc (ts : TagsRec) (hfit : tagsSize ts ≤ 65535) (fuel i : Nat)
    (hf : ts.length - i ≤ fuel) (tail : Bytes) :
    readTagsFrom (encodeTags ts ++ tail) ts.length fuel i = .ok (ts.drop i) := by
  induction fuel generalizing i with
  | zero =>
    have : ts.length ≤ i := by omega
    simp [readTagsFrom, List.drop_eq_nil_of_le this]
  | succ fuel ih =>
    by_cases hi : i ≥ ts.length
    · simp [readTagsFrom, hi, List.drop_eq_nil_of_le hi]
    · have hi' : i < ts.length := by omega
      simp only [readTagsFrom, hi, if_false]
      -- the i-th tag and what follows
      obtain ⟨t, rest, hdrop⟩ : ∃ t rest, ts.drop i = t :: rest := by
        cases hd : ts.drop i with
        | nil => simp [List.drop_eq_nil_iff] at hd; omega
        | cons t rest => exact ⟨t, rest, rfl⟩
      have ht : t ∈ ts := by
        have : t ∈ ts.drop i := by rw [hdrop]; simp
        exact List.mem_of_mem_drop this
      obtain ⟨_, hsm⟩ := small_of_fits ts hfit
      obtain ⟨htl, hts⟩ := hsm t ht
      let b := encodeTags ts ++ tail
      let q := 4 + 2 * ts.length + tagsBodySize (ts.take i)
      have hq : q < 65536 := by
        have := tagsBodySize_take_le ts i
        unfold tagsSize at hfit; omega
      -- (a) the offset slot
      have ha : b.drop (4 + i * 2) =
          le16 q ++ (encOffsets (q + tagSize t) rest ++ (encTagsBody ts ++ tail)) := by
        show (encodeTags ts ++ tail).drop (4 + i * 2) = _
        have e1 : encodeTags ts ++ tail = (le16 (tagsSize ts) ++ le16 ts.length) ++
            (encOffsets (4 + 2 * ts.length) ts ++ (encTagsBody ts ++ tail)) := by
          simp [encodeTags, List.append_assoc]
        rw [e1, show 4 + i * 2 = (le16 (tagsSize ts) ++ le16 ts.length).length + 2 * i by simp; omega,
          drop_add_left, List.drop_append_of_le_length (by rw [encOffsets_length]; omega),
          encOffsets_drop, hdrop]
        simp [encOffsets, q]
      have r1 := rd16_of_drop b (4 + i * 2) q _ ha
      rw [Nat.mod_eq_of_lt hq] at r1
      -- (b) the tag data at that offset
      have hb : b.drop q = le16 t.length ++ (encStrs t ++ (encTagsBody rest ++ tail)) := by
        show (encodeTags ts ++ tail).drop q = _
        have e1 : encodeTags ts ++ tail = (le16 (tagsSize ts) ++ le16 ts.length ++
            encOffsets (4 + 2 * ts.length) ts) ++ (encTagsBody ts ++ tail) := by
          simp [encodeTags, List.append_assoc]
        rw [e1, show q = (le16 (tagsSize ts) ++ le16 ts.length ++ encOffsets (4 + 2 * ts.length) ts).length
              + tagsBodySize (ts.take i) by simp [encOffsets_length, q]; omega,
          drop_add_left,
          List.drop_append_of_le_length (by rw [encTagsBody_length]; exact tagsBodySize_take_le ts i),
          encTagsBody_drop, hdrop]
        simp [encTagsBody, encTag]
      have r2 := rd16_of_drop b q t.length _ hb
      rw [Nat.mod_eq_of_lt htl] at r2
      have hc : b.drop (q + 2) = encStrs t ++ (encTagsBody rest ++ tail) := drop_drop_of b q 2 _ _ hb rfl
      have r3 := readStrs_enc b t (q + 2) _ hc hts
      have r4 := ih (i + 1) (by omega)
      have hd2 : ts.drop (i + 1) = rest := by
        rw [← List.drop_drop, hdrop]; rfl
      have r1' : rd16 (encodeTags ts ++ tail) (4 + i * 2) = .ok q := r1
      have r2' : rd16 (encodeTags ts ++ tail) q = .ok t.length := r2
      have r3' : readStrs (encodeTags ts ++ tail) t.length (q + 2) = .ok t := r3
      simp only [r1', r2', r3', r4, hd2, hdrop]

/-- **decode ∘ encode** for tag sections (also when more bytes follow, as inside an event) -/
theorem tagsDecode_encode (ts : TagsRec) (hfit : tagsSize ts ≤ 65535) (tail : Bytes) :
    tagsDecode (encodeTags ts ++ tail) = .ok ts := by
  obtain ⟨hn, _⟩ := small_of_fits ts hfit
  have hc : tagsCount (encodeTags ts ++ tail) = .ok ts.length := by
    have : (encodeTags ts ++ tail).drop 2 =
        le16 ts.length ++ (encOffsets (4 + 2 * ts.length) ts ++ encTagsBody ts ++ tail) := by
      unfold encodeTags; simp only [List.append_assoc]
      rw [List.drop_left' (by simp)]
    have := rd16_of_drop _ 2 ts.length _ this
    rwa [Nat.mod_eq_of_lt hn] at this
  unfold tagsDecode
  rw [hc]
  have := readTagsFrom_enc ts hfit ts.length 0 (by omega) tail
  simpa using this

end Pocket

namespace Pocket

/-- an event whose parts fit the binary format's fields -/
structure EventSized (e : EventRec) : Prop where
  id : e.id.length = 32
  pk : e.pubkey.length = 32
  sig : e.sig.length = 64
  kind : e.kind < 65536
  t : e.createdAt < 18446744073709551616
  tags : tagsSize e.tags ≤ 65535
  content : eventSize (tagsSize e.tags) e.content.length ≤ 4294967295

theorem tagsDelineate_encode (ts : TagsRec) (hfit : tagsSize ts ≤ 65535) (tail : Bytes) :
    tagsDelineate (encodeTags ts ++ tail) = .ok (encodeTags ts) := by
  have hlen : (encodeTags ts ++ tail).length = tagsSize ts + tail.length := by
    simp [encodeTags_length]
  have h0 : (encodeTags ts ++ tail).drop 0 =
      le16 (tagsSize ts) ++ (le16 ts.length ++ encOffsets (4 + 2 * ts.length) ts ++ encTagsBody ts ++ tail) := by
    simp [encodeTags, List.append_assoc]
  have r := rd16_of_drop _ 0 (tagsSize ts) _ h0
  rw [Nat.mod_eq_of_lt (by omega)] at r
  unfold tagsDelineate
  have h2 : ¬ (encodeTags ts ++ tail).length < 2 := by
    rw [hlen]; unfold tagsSize; omega
  have h3 : ¬ (encodeTags ts ++ tail).length < tagsSize ts := by rw [hlen]; omega
  simp only [h2, if_false, r, h3]
  rw [List.take_left' (encodeTags_length ts)]

theorem encodeEventWith_length (id pk sig : Bytes) (kind t : Nat) (tb c : Bytes)
    (h1 : id.length = 32) (h2 : pk.length = 32) (h3 : sig.length = 64) :
    (encodeEventWith id pk sig kind t tb c).length = eventSize tb.length c.length := by
  simp [encodeEventWith, eventSize, h1, h2, h3]; omega

/-- **decode ∘ encode** for events: every accessor returns the part it was built from -/
theorem eventDecode_encode (e : EventRec) (hs : EventSized e) : eventDecode (encodeEvent e) = .ok e := by
  obtain ⟨h1, h2, h3, hk, ht, htg, hc⟩ := hs
  have hcl : e.content.length < 4294967296 := by unfold eventSize at hc; omega
  let tb := encodeTags e.tags
  have htb : tb.length = tagsSize e.tags := encodeTags_length e.tags
  let b := encodeEvent e
  have hb : b = le32 (eventSize tb.length e.content.length) ++ (le16 e.kind ++ ([0, 0] ++ (le64 e.createdAt ++
      (e.id ++ (e.pubkey ++ (e.sig ++ (tb ++ (le32 e.content.length ++ e.content)))))))) := by
    simp [b, encodeEvent, encodeEventWith, tb, List.append_assoc]
  have d4 : b.drop 4 = le16 e.kind ++ ([0, 0] ++ (le64 e.createdAt ++
      (e.id ++ (e.pubkey ++ (e.sig ++ (tb ++ (le32 e.content.length ++ e.content))))))) := by
    rw [hb, List.drop_left' (by simp)]
  have d8 : b.drop 8 = le64 e.createdAt ++
      (e.id ++ (e.pubkey ++ (e.sig ++ (tb ++ (le32 e.content.length ++ e.content))))) := by
    have := drop_drop_of b 4 2 _ _ d4 (by simp)
    have := drop_drop_of b 6 2 _ _ this (by simp)
    exact this
  have d16 : b.drop 16 = e.id ++ (e.pubkey ++ (e.sig ++ (tb ++ (le32 e.content.length ++ e.content)))) :=
    drop_drop_of b 8 8 _ _ d8 (by simp)
  have d48 : b.drop 48 = e.pubkey ++ (e.sig ++ (tb ++ (le32 e.content.length ++ e.content))) :=
    drop_drop_of b 16 32 _ _ d16 h1
  have d80 : b.drop 80 = e.sig ++ (tb ++ (le32 e.content.length ++ e.content)) :=
    drop_drop_of b 48 32 _ _ d48 h2
  have d144 : b.drop 144 = tb ++ (le32 e.content.length ++ e.content) :=
    drop_drop_of b 80 64 _ _ d80 h3
  have dT : b.drop (144 + tagsSize e.tags) = le32 e.content.length ++ e.content :=
    drop_drop_of b 144 _ _ _ d144 htb
  have dC : b.drop (144 + tagsSize e.tags + 4) = e.content ++ [] := by
    have := drop_drop_of b (144 + tagsSize e.tags) 4 _ _ dT (by simp)
    simpa using this
  have blen : b.length = eventSize (tagsSize e.tags) e.content.length := by
    have := encodeEventWith_length e.id e.pubkey e.sig e.kind e.createdAt tb e.content h1 h2 h3
    rw [htb] at this; exact this
  have r4 := rd16_of_drop b 4 e.kind _ d4
  rw [Nat.mod_eq_of_lt hk] at r4
  have r8 := rd64_of_drop b 8 e.createdAt _ d8
  rw [Nat.mod_eq_of_lt ht] at r8
  have s16 := slice_of_drop b 16 e.id _ d16 (by rw [blen]; unfold eventSize; omega)
  have s48 := slice_of_drop b 48 e.pubkey _ d48 (by rw [blen]; unfold eventSize; omega)
  have s80 := slice_of_drop b 80 e.sig _ d80 (by rw [blen]; unfold eventSize; omega)
  rw [h1] at s16; rw [h2] at s48; rw [h3] at s80
  have hdel : tagsDelineate (b.drop 144) = .ok tb := by
    rw [d144]; exact tagsDelineate_encode e.tags htg _
  have hdec : tagsDecode tb = .ok e.tags := by
    have := tagsDecode_encode e.tags htg []
    simpa using this
  have r144 : rd16 b 144 = .ok (tagsSize e.tags) := by
    have h0 : b.drop 144 = le16 (tagsSize e.tags) ++ (le16 e.tags.length ++
        encOffsets (4 + 2 * e.tags.length) e.tags ++ encTagsBody e.tags ++ (le32 e.content.length ++ e.content)) := by
      rw [d144]; simp [tb, encodeTags, List.append_assoc]
    have := rd16_of_drop b 144 (tagsSize e.tags) _ h0
    rwa [Nat.mod_eq_of_lt (by omega)] at this
  have rT := rd32_of_drop b (144 + tagsSize e.tags) e.content.length _ dT
  rw [Nat.mod_eq_of_lt hcl] at rT
  have sC := slice_of_drop b (144 + tagsSize e.tags + 4) e.content _ dC (by rw [blen]; unfold eventSize; omega)
  have hlen144 : ¬ b.length < 144 := by rw [blen]; unfold eventSize; omega
  show eventDecode b = .ok e
  unfold eventDecode
  simp only [r4, r8, s16, s48, s80, hlen144, if_false, hdel, hdec, r144, rT, sC]

end Pocket

namespace Pocket

structure FilterSized (f : FilterRec) : Prop where
  ids : ∀ x ∈ f.ids, x.length = 32
  authors : ∀ x ∈ f.authors, x.length = 32
  kinds : ∀ k ∈ f.kinds, k < 65536
  nIds : f.ids.length ≤ 65535
  nAuthors : f.authors.length ≤ 65535
  nKinds : f.kinds.length ≤ 65535
  tags : tagsSize f.tags ≤ 65535
  since : f.since < 18446744073709551616
  «until» : f.until < 18446744073709551616
  limit : f.limit < 4294967296

theorem flat32_length (xs : List Bytes) (h : ∀ x ∈ xs, x.length = 32) :
    (flat32 xs).length = xs.length * 32 := by
  induction xs with
  | nil => rfl
  | cons x xs ih =>
    simp only [flat32, List.length_append, List.length_cons, h x (by simp),
      ih (fun y hy => h y (by simp [hy]))]; omega

theorem flatKinds_length (ks : List Nat) : (flatKinds ks).length = ks.length * 2 := by
  induction ks with
  | nil => rfl
  | cons k ks ih => simp only [flatKinds, List.length_append, le16_length, List.length_cons, ih]; omega

theorem readItems32_flat (xs : List Bytes) (rest : Bytes) (hx : ∀ x ∈ xs, x.length = 32) :
    readItems32 xs.length (flat32 xs ++ rest) = xs := by
  induction xs with
  | nil => rfl
  | cons x xs ih =>
    have hx1 : x.length = 32 := hx x (by simp)
    simp only [flat32, List.append_assoc, List.length_cons, readItems32]
    rw [List.take_left' hx1, List.drop_left' hx1, hx1]
    simp only [Nat.lt_irrefl, if_false, ih (fun y hy => hx y (by simp [hy]))]

theorem readKinds_flat (ks : List Nat) (rest : Bytes) (hk : ∀ k ∈ ks, k < 65536) :
    readKinds ks.length (flatKinds ks ++ rest) = ks := by
  induction ks with
  | nil => rfl
  | cons k ks ih =>
    have hk1 : k < 65536 := hk k (by simp)
    simp only [flatKinds, le16, List.length_cons, readKinds, List.cons_append, List.nil_append,
      ih (fun y hy => hk y (by simp [hy]))]
    congr 1; omega

/-- **decode ∘ encode** for filters -/
theorem filterDecode_encode (f : FilterRec) (hs : FilterSized f) : filterDecode (encodeFilter f) = .ok f := by
  obtain ⟨hi, ha, hk, hni, hna, hnk, htg, hsi, hun, hli⟩ := hs
  let tb := encodeTags f.tags
  have htb : tb.length = tagsSize f.tags := encodeTags_length f.tags
  let b := encodeFilter f
  have hb : b = le32 (filterSize f.ids.length f.authors.length f.kinds.length tb.length) ++
      (le16 f.ids.length ++ (le16 f.authors.length ++ (le16 f.kinds.length ++ ([0, 0] ++
      (le32 f.limit ++ (le64 f.since ++ (le64 f.until ++ (flat32 f.ids ++ (flat32 f.authors ++
      (flatKinds f.kinds ++ tb)))))))))) := by
    simp [b, encodeFilter, encodeFilterWith, tb, List.append_assoc]
  have d4 : b.drop 4 = le16 f.ids.length ++ (le16 f.authors.length ++ (le16 f.kinds.length ++ ([0, 0] ++
      (le32 f.limit ++ (le64 f.since ++ (le64 f.until ++ (flat32 f.ids ++ (flat32 f.authors ++
      (flatKinds f.kinds ++ tb))))))))) := by
    rw [hb, List.drop_left' (by simp)]
  have d6 := drop_drop_of b 4 2 _ _ d4 (by simp)
  have d8 := drop_drop_of b 6 2 _ _ d6 (by simp)
  have d10 := drop_drop_of b 8 2 _ _ d8 (by simp)
  have d12 := drop_drop_of b 10 2 _ _ d10 (by simp)
  have d16 := drop_drop_of b 12 4 _ _ d12 (by simp)
  have d24 := drop_drop_of b 16 8 _ _ d16 (by simp)
  have d32 := drop_drop_of b 24 8 _ _ d24 (by simp)
  have dA := drop_drop_of b 32 _ _ _ d32 (flat32_length f.ids hi)
  have dK := drop_drop_of b _ _ _ _ dA (flat32_length f.authors ha)
  have dT := drop_drop_of b _ _ _ _ dK (flatKinds_length f.kinds)
  have r4 := rd16_of_drop b 4 _ _ d4
  have r6 := rd16_of_drop b 6 _ _ d6
  have r8 := rd16_of_drop b 8 _ _ d8
  have r12 := rd32_of_drop b 12 _ _ d12
  have r16 := rd64_of_drop b 16 _ _ d16
  have r24 := rd64_of_drop b 24 _ _ d24
  rw [Nat.mod_eq_of_lt (by omega)] at r4 r6 r8
  rw [Nat.mod_eq_of_lt hli] at r12
  rw [Nat.mod_eq_of_lt hsi] at r16
  rw [Nat.mod_eq_of_lt hun] at r24
  have blen : b.length = filterSize f.ids.length f.authors.length f.kinds.length (tagsSize f.tags) := by
    rw [hb]; simp [flat32_length f.ids hi, flat32_length f.authors ha, flatKinds_length, htb, filterSize]; omega
  have hst : 32 + f.ids.length * 32 + f.authors.length * 32 + f.kinds.length * 2 ≤ b.length := by
    rw [blen]; unfold filterSize; omega
  have hdel : tagsDelineate (b.drop (32 + f.ids.length * 32 + f.authors.length * 32 + f.kinds.length * 2)) = .ok tb := by
    rw [dT]
    have := tagsDelineate_encode f.tags htg []
    simpa using this
  have hdec : tagsDecode tb = .ok f.tags := by
    have := tagsDecode_encode f.tags htg []
    simpa using this
  have i1 : readItems32 f.ids.length (b.drop 32) = f.ids := by
    rw [d32]; exact readItems32_flat f.ids _ hi
  have i2 : readItems32 f.authors.length (b.drop (32 + f.ids.length * 32)) = f.authors := by
    rw [dA]; exact readItems32_flat f.authors _ ha
  have i3 : readKinds f.kinds.length (b.drop (32 + f.ids.length * 32 + f.authors.length * 32)) = f.kinds := by
    rw [dK]; exact readKinds_flat f.kinds _ hk
  show filterDecode b = .ok f
  unfold filterDecode
  have hnl : ¬ b.length < 32 + f.ids.length * 32 + f.authors.length * 32 + f.kinds.length * 2 := by omega
  simp only [r4, r6, r8, r12, r16, r24, hnl, if_false, hdel, hdec, i1, i2, i3]

end Pocket
