import Pocket.Lemmas.ParseWF
import Pocket.Lemmas.Layout
/- A successful `Filter::from_json` wrote the encoding of a sized filter (C03, C07, C19): every
count, length and offset inside the value is consistent, so every accessor is in bounds. -/
namespace Pocket

theorem copyHex32_spec (fuel : Nat) (inp : Bytes) (endPos cap n : Nat) (vs : List Bytes)
    (h : copyHex32 fuel inp endPos cap n = .ok vs) (he : endPos ≤ cap) :
    (∀ v ∈ vs, v.length = 32) ∧ n + vs.length ≤ 65535 + (if vs = [] then n else 0) ∧ endPos + 32 * vs.length ≤ cap := by
  induction fuel generalizing inp endPos n vs with
  | zero => simp [copyHex32] at h
  | succ fuel ih =>
    unfold copyHex32 at h
    split at h
    · cases h
    · split at h
      · simp only [Outcome.ok.injEq] at h; subst h; simp; omega
      · split at h
        · cases h
        · split at h
          · cases h
          · split at h
            · rename_i v r hv
              split at h
              · cases h
              · split at h
                · rename_i vs' hvs
                  simp only [Outcome.ok.injEq] at h; subst h
                  have hl := readHexField_length 32 _ v r hv
                  obtain ⟨i1, i2, i3⟩ := ih _ _ _ _ hvs (by omega)
                  refine ⟨?_, ?_, ?_⟩
                  · intro x hx
                    rcases List.mem_cons.mp hx with rfl | hx
                    · exact hl
                    · exact i1 x hx
                  · simp only [List.length_cons, reduceCtorEq, if_false]
                    split at i2 <;> rename_i hemp
                    · subst hemp; simp; omega
                    · omega
                  · simp only [List.length_cons]; omega
                · cases h
                · cases h
            · cases h
            · cases h

theorem copyKinds_spec (fuel : Nat) (inp : Bytes) (endPos cap n : Nat) (ks : List Nat)
    (h : copyKinds fuel inp endPos cap n = .ok ks) (he : endPos ≤ cap) :
    (∀ k ∈ ks, k < 65536) ∧ n + ks.length ≤ 65535 + (if ks = [] then n else 0) ∧ endPos + 2 * ks.length ≤ cap := by
  induction fuel generalizing inp endPos n ks with
  | zero => simp [copyKinds] at h
  | succ fuel ih =>
    unfold copyKinds at h
    split at h
    · cases h
    · split at h
      · simp only [Outcome.ok.injEq] at h; subst h; simp; omega
      · split at h
        · rename_i u r hu
          split at h
          · cases h
          · split at h
            · cases h
            · split at h
              · cases h
              · split at h
                · rename_i ks' hk
                  simp only [Outcome.ok.injEq] at h; subst h
                  obtain ⟨i1, i2, i3⟩ := ih _ _ _ _ hk (by omega)
                  refine ⟨?_, ?_, ?_⟩
                  · intro x hx
                    rcases List.mem_cons.mp hx with rfl | hx
                    · omega
                    · exact i1 x hx
                  · simp only [List.length_cons, reduceCtorEq, if_false]
                    split at i2 <;> rename_i hemp
                    · subst hemp; simp; omega
                    · omega
                  · simp only [List.length_cons]; omega
                · cases h
                · cases h
        · cases h
        · cases h

theorem copyTagValues_spec (fuel : Nat) (inp : Bytes) (endPos cap count : Nat) (vs : List Bytes)
    (h : copyTagValues fuel inp endPos cap count = .ok vs) (he : endPos ≤ cap) :
    endPos + strsSize vs ≤ cap := by
  induction fuel generalizing inp endPos count vs with
  | zero => simp [copyTagValues] at h
  | succ fuel ih =>
    unfold copyTagValues at h
    split at h
    · cases h
    · split at h
      · simp only [Outcome.ok.injEq] at h; subst h; simp [strsSize]; omega
      · split at h
        · split at h
          · cases h
          · split at h
            · rename_i inlen s hs
              split at h
              · cases h
              · split at h
                · rename_i vs' hv
                  simp only [Outcome.ok.injEq] at h; subst h
                  have hb := (jsonUnescape_bounds _ _ _ _ hs).1
                  have := ih _ _ _ _ hv (by omega)
                  simp only [strsSize]; omega
                · cases h
                · cases h
            · cases h
            · cases h
        · cases h
        · cases h

theorem copyTagField_spec (s : Nat × Bytes) (endPos cap : Nat) (t : List Bytes)
    (h : copyTagField s endPos cap = .ok t) : endPos + tagSize t ≤ cap := by
  obtain ⟨letter, r0⟩ := s
  unfold copyTagField at h
  simp only [] at h
  split at h
  · cases h
  · split at h
    · cases h
    · split at h
      · split at h
        · split at h
          · split at h
            · rename_i vs hv
              simp only [Outcome.ok.injEq] at h; subst h
              have := copyTagValues_spec _ _ _ _ _ _ hv (by omega)
              simp only [tagSize, strsSize, List.length_cons, List.length_nil]; omega
            · cases h
            · cases h
          · cases h
          · cases h
        · cases h
        · cases h
      · cases h
      · cases h

theorem copyTagFields_spec (ss : List (Nat × Bytes)) (w wts endPos cap : Nat) (offs : List Nat) (ts : TagsRec)
    (h : copyTagFields ss w wts endPos cap = .ok (offs, ts)) (hge : wts ≤ endPos) :
    ts.length = ss.length ∧ encOffList offs = encOffsets (endPos - wts) ts ∧
      (ss ≠ [] → endPos + tagsBodySize ts ≤ cap ∧ wts + 4 + 2 * (w + ss.length) ≤ cap) := by
  induction ss generalizing w endPos offs ts with
  | nil =>
    simp only [copyTagFields, Outcome.ok.injEq, Prod.mk.injEq] at h
    obtain ⟨rfl, rfl⟩ := h
    simp [encOffList, encOffsets]
  | cons s ss ih =>
    unfold copyTagFields at h
    split at h
    · cases h
    · rename_i hcw
      split at h
      · rename_i t ht
        split at h
        · rename_i offs' ts' hrec
          simp only [Outcome.ok.injEq, Prod.mk.injEq] at h
          obtain ⟨rfl, rfl⟩ := h
          have hsz := copyTagField_spec s endPos cap t ht
          obtain ⟨i1, i2, i3⟩ := ih _ _ _ _ hrec (by omega)
          refine ⟨by simp [i1], ?_, ?_⟩
          · simp only [encOffList, encOffsets, i2]
            have : le16 ((endPos - wts) % 65536) = le16 (endPos - wts) := by
              unfold le16; congr 1
              · omega
              · congr 1; omega
            rw [this]
            congr 2; omega
          · intro _
            simp only [tagsBodySize, List.length_cons]
            cases ss with
            | nil =>
              simp only [List.length_nil] at i1
              have : ts' = [] := List.length_eq_zero_iff.mp i1
              subst this
              simp only [tagsBodySize]; omega
            | cons s2 ss2 =>
              obtain ⟨j1, j2⟩ := i3 (by simp)
              simp only [List.length_cons] at j2 ⊢
              omega
        · cases h
        · cases h
      · cases h
      · cases h

theorem copyOpt32_spec (start : Option Bytes) (endPos cap : Nat) (vs : List Bytes)
    (h : copyOpt32 start endPos cap = .ok vs) (he : endPos ≤ cap) :
    (∀ v ∈ vs, v.length = 32) ∧ vs.length ≤ 65535 ∧ endPos + 32 * vs.length ≤ cap := by
  cases start with
  | none => simp only [copyOpt32, Outcome.ok.injEq] at h; subst h; simp; omega
  | some s =>
    obtain ⟨i1, i2, i3⟩ := copyHex32_spec _ _ _ _ _ _ h he
    refine ⟨i1, ?_, i3⟩
    split at i2 <;> rename_i hemp
    · subst hemp; simp
    · omega

theorem copyOptKinds_spec (start : Option Bytes) (endPos cap : Nat) (ks : List Nat)
    (h : copyOptKinds start endPos cap = .ok ks) (he : endPos ≤ cap) :
    (∀ k ∈ ks, k < 65536) ∧ ks.length ≤ 65535 ∧ endPos + 2 * ks.length ≤ cap := by
  cases start with
  | none => simp only [copyOptKinds, Outcome.ok.injEq] at h; subst h; simp; omega
  | some s =>
    obtain ⟨i1, i2, i3⟩ := copyKinds_spec _ _ _ _ _ _ h he
    refine ⟨i1, ?_, i3⟩
    split at i2 <;> rename_i hemp
    · subst hemp; simp
    · omega

/-- what the member loop leaves in the three integer slots is in range -/
structure FlInv (st : FlSt) : Prop where
  since : ∀ v, st.since = some v → v < 18446744073709551616
  «until» : ∀ v, st.until = some v → v < 18446744073709551616
  limit : ∀ v, st.limit = some v → v < 4294967296

theorem flMember_inv (st : FlSt) (q : Bytes) (st' : FlSt) (r : Bytes) (hi : FlInv st)
    (h : flMember st q = .ok (st', r)) : FlInv st' := by
  obtain ⟨i1, i2, i3⟩ := hi
  unfold flMember at h
  repeat' split at h
  all_goals first
    | (cases h; done)
    | (simp only [Outcome.ok.injEq, Prod.mk.injEq] at h
       obtain ⟨rfl, _⟩ := h
       refine ⟨?_, ?_, ?_⟩ <;> intro v hv <;> first
         | exact i1 v hv
         | exact i2 v hv
         | exact i3 v hv
         | (simp only [Option.some.injEq] at hv; subst hv
            first
            | exact readU64_bound _ _ _ (by assumption)
            | (unfold U32MAX at *; first | omega | (split <;> omega))))

theorem flLoop_inv (fuel : Nat) (st : FlSt) (inp : Bytes) (st' : FlSt) (r : Bytes) (hi : FlInv st)
    (h : flLoop fuel st inp = .ok (st', r)) : FlInv st' := by
  induction fuel generalizing st inp with
  | zero => simp [flLoop] at h
  | succ fuel ih =>
    unfold flLoop at h
    split at h
    · cases h
    · split at h
      · simp only [Outcome.ok.injEq, Prod.mk.injEq] at h; obtain ⟨rfl, _⟩ := h; exact hi
      · split at h
        · rename_i st1 r1 hm
          exact ih _ _ (flMember_inv _ _ _ _ hi hm) h
        · cases h
        · cases h

theorem encodeFilter_length' (ids authors : List Bytes) (kinds : List Nat) (tags : TagsRec) (si un li : Nat)
    (h1 : ∀ x ∈ ids, x.length = 32) (h2 : ∀ x ∈ authors, x.length = 32) :
    (encodeFilter ⟨ids, authors, kinds, tags, si, un, li⟩).length =
      filterSize ids.length authors.length kinds.length (tagsSize tags) := by
  simp [encodeFilter, encodeFilterWith, flat32_length ids h1, flat32_length authors h2,
    flatKinds_length, encodeTags_length, filterSize]; omega

/-- **a successful `Filter::from_json` wrote the encoding of a sized filter**, inside the buffer,
the rest of the buffer untouched -/
theorem parseFilter_wf (inp buf : Bytes) (c n : Nat) (out : Bytes)
    (h : parseFilter inp buf = .ok (c, n, out)) :
    ∃ f, FilterSized f ∧ out = encodeFilter f ++ buf.drop n ∧ n = (encodeFilter f).length ∧
      n ≤ buf.length ∧ c ≤ inp.length := by
  unfold parseFilter at h
  simp only [] at h
  split at h
  · cases h
  · split at h
    · cases h
    · rename_i hcap32
      split at h
      · rename_i r hr
        split at h
        · rename_i st rest hloop
          have hinv := flLoop_inv _ _ _ _ _ (FlInv.mk (fun v hv => by cases hv) (fun v hv => by cases hv) (fun v hv => by cases hv)) hloop
          split at h
          · rename_i ids hids
            obtain ⟨a1, a2, a3⟩ := copyOpt32_spec _ _ _ _ hids (by omega)
            split at h
            · rename_i authors hau
              obtain ⟨b1, b2, b3⟩ := copyOpt32_spec _ _ _ _ hau (by omega)
              split at h
              · rename_i kinds hk
                obtain ⟨c1, c2, c3⟩ := copyOptKinds_spec _ _ _ _ hk (by omega)
                split at h
                · cases h
                · rename_i hw4
                  split at h
                  · rename_i offs tags htf
                    obtain ⟨d1, d2, d3⟩ := copyTagFields_spec _ _ _ _ _ _ _ htf (by omega)
                    split at h
                    · cases h
                    · rename_i ht16
                      split at h
                      · cases h
                      · rename_i ht32
                        simp only [Outcome.ok.injEq, Prod.mk.injEq] at h
                        obtain ⟨rfl, rfl, rfl⟩ := h
                        have hsub : 32 + 32 * ids.length + 32 * authors.length + 2 * kinds.length + 4 + 2 * st.tagStarts.length -
                            (32 + 32 * ids.length + 32 * authors.length + 2 * kinds.length) = 4 + 2 * st.tagStarts.length := by omega
                        rw [hsub, ← d1] at d2
                        have htb : le16 (4 + 2 * st.tagStarts.length + tagsBodySize tags) ++ le16 st.tagStarts.length ++
                            encOffList offs ++ encTagsBody tags = encodeTags tags := by
                          rw [d2, ← d1]; rfl
                        have htsz : tagsSize tags = 4 + 2 * st.tagStarts.length + tagsBodySize tags := by
                          rw [← d1]; rfl
                        have hfit : 32 + 32 * ids.length + 32 * authors.length + 2 * kinds.length + tagsSize tags ≤ buf.length := by
                          rw [htsz]
                          by_cases hemp : st.tagStarts = []
                          · have : tags = [] := List.length_eq_zero_iff.mp (by rw [d1, hemp]; rfl)
                            subst this
                            simp only [hemp, List.length_nil, tagsBodySize]; omega
                          · obtain ⟨e1, e2⟩ := d3 hemp
                            omega
                        refine ⟨⟨ids, authors, kinds, tags, st.since.getD 0, st.until.getD U64MAX, st.limit.getD U32MAX⟩,
                          ?_, ?_, ?_, ?_, by omega⟩
                        · refine ⟨a1, b1, c1, a2, b2, c2, by rw [htsz]; omega, ?_, ?_, ?_⟩
                          · show st.since.getD 0 < _
                            cases hs : st.since with
                            | none => simp
                            | some v => simpa using hinv.since v hs
                          · show st.until.getD U64MAX < _
                            cases hs : st.until with
                            | none => simp [U64MAX]
                            | some v => simpa using hinv.until v hs
                          · show st.limit.getD U32MAX < _
                            cases hs : st.limit with
                            | none => simp [U32MAX]
                            | some v => simpa using hinv.limit v hs
                        · rw [htb]; rfl
                        · rw [htb]; rfl
                        · rw [htb]
                          have hl := encodeFilter_length' ids authors kinds tags (st.since.getD 0) (st.until.getD U64MAX) (st.limit.getD U32MAX) a1 b1
                          show (encodeFilter ⟨ids, authors, kinds, tags, st.since.getD 0, st.until.getD U64MAX, st.limit.getD U32MAX⟩).length ≤ _
                          rw [hl]; unfold filterSize; omega
                  · cases h
                  · cases h
              · cases h
              · cases h
            · cases h
            · cases h
          · cases h
          · cases h
        · cases h
        · cases h
      · cases h
      · cases h

end Pocket
