import Pocket.Model.ParseFilter
/- Totality: no model function reaches `Outcome.panic` (C03).  Each lemma has the simp-normal
form `(f … = .panic) = False` so that `simp_all` discharges propagated panics. -/
namespace Pocket

/-- unfold one level, split every `if`/`match`, close each leaf -/
macro "nopanic_l0" : tactic => `(tactic| first
  | (intro h; cases h; done)
  | (intro h; simp_all; done)
  | (simp_all; done))
macro "nopanic_l1" : tactic => `(tactic| first
  | nopanic_l0
  | ((try simp_all) <;> (repeat' split) <;> nopanic_l0))
macro "nopanic_l2" : tactic => `(tactic| first
  | nopanic_l1
  | ((try simp_all) <;> (repeat' split) <;> nopanic_l1))
macro "nopanic_leaf" : tactic => `(tactic| first
  | nopanic_l2
  | ((try simp_all) <;> (repeat' split) <;> nopanic_l2))

@[simp] theorem nextCodePoint_ne_panic (inp : Bytes) : (nextCodePoint inp = .panic) = False := by
  simp only [eq_iff_iff, iff_false]
  unfold nextCodePoint
  repeat' split
  all_goals nopanic_leaf

@[simp] theorem jsonEscapeF_ne_panic (fuel : Nat) (inp : Bytes) :
    (jsonEscapeF fuel inp = .panic) = False := by
  simp only [eq_iff_iff, iff_false]
  induction fuel generalizing inp with
  | zero => simp [jsonEscapeF]
  | succ fuel ih =>
    unfold jsonEscapeF
    repeat' split
    all_goals nopanic_leaf

@[simp] theorem jsonEscape_ne_panic (inp : Bytes) : (jsonEscape inp = .panic) = False := by
  simp [jsonEscape]

@[simp] theorem unescF_ne_panic (fuel : Nat) (inp : Bytes) (st : EscSt) (pos cap : Nat) :
    (unescF fuel inp st pos cap = .panic) = False := by
  simp only [eq_iff_iff, iff_false]
  induction fuel generalizing inp st pos with
  | zero => simp [unescF]
  | succ fuel ih =>
    unfold unescF
    repeat' split
    all_goals nopanic_leaf

@[simp] theorem jsonUnescape_ne_panic (inp : Bytes) (cap : Nat) :
    (jsonUnescape inp cap = .panic) = False := by
  simp [jsonUnescape]

@[simp] theorem verifyChar_ne_panic (c : Nat) (inp : Bytes) : (verifyChar c inp = .panic) = False := by
  simp only [eq_iff_iff, iff_false]
  unfold verifyChar; repeat' split
  all_goals nopanic_leaf

@[simp] theorem eatColon_ne_panic (inp : Bytes) : (eatColon inp = .panic) = False := by
  simp only [eq_iff_iff, iff_false]
  unfold eatColon; repeat' split
  all_goals nopanic_leaf

@[simp] theorem nextObjectField_ne_panic (inp : Bytes) : (nextObjectField inp = .panic) = False := by
  simp only [eq_iff_iff, iff_false]
  unfold nextObjectField; repeat' split
  all_goals nopanic_leaf

@[simp] theorem unhexPairs_ne_panic : ∀ (inp : Bytes), (unhexPairs inp = .panic) = False
  | [] => by simp [unhexPairs]
  | [_] => by simp [unhexPairs]
  | h :: l :: rest => by
    have ih := unhexPairs_ne_panic rest
    simp only [eq_iff_iff, iff_false] at *
    unfold unhexPairs; repeat' split
    all_goals nopanic_leaf

@[simp] theorem readHex_ne_panic (n : Nat) (inp : Bytes) : (readHex n inp = .panic) = False := by
  simp only [eq_iff_iff, iff_false]
  unfold readHex; repeat' split
  all_goals nopanic_leaf

@[simp] theorem readHexField_ne_panic (n : Nat) (inp : Bytes) :
    (readHexField n inp = .panic) = False := by
  simp only [eq_iff_iff, iff_false]
  unfold readHexField; repeat' split
  all_goals nopanic_leaf

@[simp] theorem readU64Loop_ne_panic (inp : Bytes) (acc : Nat) (any : Bool) :
    (readU64Loop inp acc any = .panic) = False := by
  simp only [eq_iff_iff, iff_false]
  induction inp generalizing acc any with
  | nil => simp [readU64Loop]
  | cons b rest ih =>
    unfold readU64Loop; repeat' split
    all_goals nopanic_leaf

@[simp] theorem readU64_ne_panic (inp : Bytes) : (readU64 inp = .panic) = False := by
  simp only [eq_iff_iff, iff_false]
  unfold readU64; repeat' split
  all_goals nopanic_leaf

@[simp] theorem readKindLoop_ne_panic (inp : Bytes) (acc : Nat) (any : Bool) :
    (readKindLoop inp acc any = .panic) = False := by
  simp only [eq_iff_iff, iff_false]
  induction inp generalizing acc any with
  | nil => simp [readKindLoop]
  | cons b rest ih =>
    unfold readKindLoop; repeat' split
    all_goals nopanic_leaf

@[simp] theorem readKind_ne_panic (inp : Bytes) : (readKind inp = .panic) = False := by
  simp only [eq_iff_iff, iff_false]
  unfold readKind; repeat' split
  all_goals nopanic_leaf

@[simp] theorem burnString_ne_panic : ∀ (inp : Bytes), (burnString inp = .panic) = False
  | [] => by simp [burnString]
  | [b] => by simp only [eq_iff_iff, iff_false]; unfold burnString; split <;> simp
  | b :: c :: rest => by
    have ih1 := burnString_ne_panic rest
    have ih2 := burnString_ne_panic (c :: rest)
    simp only [eq_iff_iff, iff_false] at *
    unfold burnString; repeat' split
    all_goals nopanic_leaf

@[simp] theorem burnTagLoop_ne_panic (fuel : Nat) (inp : Bytes) :
    (burnTagLoop fuel inp = .panic) = False := by
  simp only [eq_iff_iff, iff_false]
  induction fuel generalizing inp with
  | zero => simp [burnTagLoop]
  | succ fuel ih =>
    unfold burnTagLoop; repeat' split
    all_goals nopanic_leaf

@[simp] theorem burnTag_ne_panic (inp : Bytes) : (burnTag inp = .panic) = False := by
  simp only [eq_iff_iff, iff_false]
  unfold burnTag; repeat' split
  all_goals nopanic_leaf

@[simp] theorem countTagsLoop_ne_panic (fuel : Nat) (inp : Bytes) (n : Nat) :
    (countTagsLoop fuel inp n = .panic) = False := by
  simp only [eq_iff_iff, iff_false]
  induction fuel generalizing inp n with
  | zero => simp [countTagsLoop]
  | succ fuel ih =>
    unfold countTagsLoop; repeat' split
    all_goals nopanic_leaf

@[simp] theorem countTags_ne_panic (inp : Bytes) : (countTags inp = .panic) = False := by
  simp only [eq_iff_iff, iff_false]
  unfold countTags; repeat' split
  all_goals nopanic_leaf

@[simp] theorem burnLit_ne_panic (lit inp : Bytes) : (burnLit lit inp = .panic) = False := by
  simp only [eq_iff_iff, iff_false]
  unfold burnLit; repeat' split
  all_goals nopanic_leaf

theorem burn_ne_panic (fuel : Nat) : ∀ (inp : Bytes) (d : Nat),
    burnValue fuel inp d ≠ .panic ∧ burnArray fuel inp d ≠ .panic ∧ burnObject fuel inp d ≠ .panic := by
  induction fuel with
  | zero => intro inp d; simp [burnValue, burnArray, burnObject]
  | succ fuel ih =>
    intro inp d
    have iv := fun i d => (ih i d).1
    have ia := fun i d => (ih i d).2.1
    have io := fun i d => (ih i d).2.2
    refine ⟨?_, ?_, ?_⟩
    · unfold burnValue; repeat' split
      all_goals nopanic_leaf
    · unfold burnArray; repeat' split
      all_goals nopanic_leaf
    · unfold burnObject; repeat' split
      all_goals nopanic_leaf

@[simp] theorem burnValue_ne_panic (fuel : Nat) (inp : Bytes) (d : Nat) :
    (burnValue fuel inp d = .panic) = False := by
  simp only [eq_iff_iff, iff_false]; exact (burn_ne_panic fuel inp d).1
@[simp] theorem burnArray_ne_panic (fuel : Nat) (inp : Bytes) (d : Nat) :
    (burnArray fuel inp d = .panic) = False := by
  simp only [eq_iff_iff, iff_false]; exact (burn_ne_panic fuel inp d).2.1
@[simp] theorem burnObject_ne_panic (fuel : Nat) (inp : Bytes) (d : Nat) :
    (burnObject fuel inp d = .panic) = False := by
  simp only [eq_iff_iff, iff_false]; exact (burn_ne_panic fuel inp d).2.2

@[simp] theorem burnKeyValue_ne_panic (inp : Bytes) (d : Nat) :
    (burnKeyValue inp d = .panic) = False := by
  simp only [eq_iff_iff, iff_false]
  unfold burnKeyValue; repeat' split
  all_goals nopanic_leaf

@[simp] theorem readTagStrs_ne_panic (fuel : Nat) (inp : Bytes) (outpos cap : Nat) :
    (readTagStrs fuel inp outpos cap = .panic) = False := by
  simp only [eq_iff_iff, iff_false]
  induction fuel generalizing inp outpos with
  | zero => simp [readTagStrs]
  | succ fuel ih =>
    unfold readTagStrs; repeat' split
    all_goals nopanic_leaf

@[simp] theorem readTag_ne_panic (inp : Bytes) (outpos cap : Nat) :
    (readTag inp outpos cap = .panic) = False := by
  simp only [eq_iff_iff, iff_false]
  unfold readTag; repeat' split
  all_goals nopanic_leaf

@[simp] theorem readTagsLoop_ne_panic (fuel : Nat) (inp : Bytes) (k n outpos cap : Nat) :
    (readTagsLoop fuel inp k n outpos cap = .panic) = False := by
  simp only [eq_iff_iff, iff_false]
  induction fuel generalizing inp k outpos with
  | zero => simp [readTagsLoop]
  | succ fuel ih =>
    unfold readTagsLoop; repeat' split
    all_goals nopanic_leaf

@[simp] theorem readTagsArray_ne_panic (inp : Bytes) (cap : Nat) :
    (readTagsArray inp cap = .panic) = False := by
  simp only [eq_iff_iff, iff_false]
  unfold readTagsArray; repeat' split
  all_goals nopanic_leaf

@[simp] theorem tagsFromJson_ne_panic (inp buf : Bytes) : (tagsFromJson inp buf = .panic) = False := by
  simp only [eq_iff_iff, iff_false]
  unfold tagsFromJson; repeat' split
  all_goals nopanic_leaf

@[simp] theorem readContent_ne_panic (inp : Bytes) (cap a : Nat) :
    (readContent inp cap a = .panic) = False := by
  simp only [eq_iff_iff, iff_false]
  unfold readContent; repeat' split
  all_goals nopanic_leaf

@[simp] theorem evMember_ne_panic (st : EvSt) (q : Bytes) (cap : Nat) :
    (evMember st q cap = .panic) = False := by
  simp only [eq_iff_iff, iff_false]
  unfold evMember; repeat' split
  all_goals nopanic_leaf

@[simp] theorem evLoop_ne_panic (fuel : Nat) (st : EvSt) (inp : Bytes) (cap : Nat) :
    (evLoop fuel st inp cap = .panic) = False := by
  simp only [eq_iff_iff, iff_false]
  induction fuel generalizing st inp with
  | zero => simp [evLoop]
  | succ fuel ih =>
    unfold evLoop; repeat' split
    all_goals nopanic_leaf

@[simp] theorem parseEvent_ne_panic (inp buf : Bytes) : (parseEvent inp buf = .panic) = False := by
  simp only [eq_iff_iff, iff_false]
  unfold parseEvent; repeat' split
  all_goals nopanic_leaf

@[simp] theorem flArrayField_ne_panic (inp : Bytes) : (flArrayField inp = .panic) = False := by
  simp only [eq_iff_iff, iff_false]
  unfold flArrayField; repeat' split
  all_goals nopanic_leaf

@[simp] theorem flMember_ne_panic (st : FlSt) (q : Bytes) : (flMember st q = .panic) = False := by
  simp only [eq_iff_iff, iff_false]
  unfold flMember; repeat' split
  all_goals nopanic_leaf

@[simp] theorem flLoop_ne_panic (fuel : Nat) (st : FlSt) (inp : Bytes) :
    (flLoop fuel st inp = .panic) = False := by
  simp only [eq_iff_iff, iff_false]
  induction fuel generalizing st inp with
  | zero => simp [flLoop]
  | succ fuel ih =>
    unfold flLoop; repeat' split
    all_goals nopanic_leaf

@[simp] theorem copyHex32_ne_panic (fuel : Nat) (inp : Bytes) (e cap n : Nat) :
    (copyHex32 fuel inp e cap n = .panic) = False := by
  simp only [eq_iff_iff, iff_false]
  induction fuel generalizing inp e n with
  | zero => simp [copyHex32]
  | succ fuel ih =>
    unfold copyHex32; repeat' split
    all_goals nopanic_leaf

@[simp] theorem copyKinds_ne_panic (fuel : Nat) (inp : Bytes) (e cap n : Nat) :
    (copyKinds fuel inp e cap n = .panic) = False := by
  simp only [eq_iff_iff, iff_false]
  induction fuel generalizing inp e n with
  | zero => simp [copyKinds]
  | succ fuel ih =>
    unfold copyKinds; repeat' split
    all_goals nopanic_leaf

@[simp] theorem copyTagValues_ne_panic (fuel : Nat) (inp : Bytes) (e cap n : Nat) :
    (copyTagValues fuel inp e cap n = .panic) = False := by
  simp only [eq_iff_iff, iff_false]
  induction fuel generalizing inp e n with
  | zero => simp [copyTagValues]
  | succ fuel ih =>
    unfold copyTagValues; repeat' split
    all_goals nopanic_leaf

@[simp] theorem copyTagField_ne_panic (s : Nat × Bytes) (e cap : Nat) :
    (copyTagField s e cap = .panic) = False := by
  simp only [eq_iff_iff, iff_false]
  unfold copyTagField; repeat' split
  all_goals nopanic_leaf

@[simp] theorem copyTagFields_ne_panic (ss : List (Nat × Bytes)) (w wts e cap : Nat) :
    (copyTagFields ss w wts e cap = .panic) = False := by
  simp only [eq_iff_iff, iff_false]
  induction ss generalizing w e with
  | nil => simp [copyTagFields]
  | cons s ss ih =>
    unfold copyTagFields; repeat' split
    all_goals nopanic_leaf

@[simp] theorem copyOpt32_ne_panic (s : Option Bytes) (e cap : Nat) :
    (copyOpt32 s e cap = .panic) = False := by
  cases s <;> simp [copyOpt32]

@[simp] theorem copyOptKinds_ne_panic (s : Option Bytes) (e cap : Nat) :
    (copyOptKinds s e cap = .panic) = False := by
  cases s <;> simp [copyOptKinds]

@[simp] theorem parseFilter_ne_panic (inp buf : Bytes) : (parseFilter inp buf = .panic) = False := by
  simp only [eq_iff_iff, iff_false]
  unfold parseFilter; dsimp only; repeat' split
  all_goals nopanic_leaf

end Pocket
