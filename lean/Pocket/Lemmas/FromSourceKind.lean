import Pocket.Src.Kind
import Pocket.Model.Kind
/- What the source says NOW (`Pocket/Src/*.lean`, regenerated from /repo by `lib/srcfacts.py` on every check run)
against what the model says.  A change of any of these in the source breaks the corresponding theorem. -/
namespace Pocket

/-- the three kind predicates of `kind.rs`, as translated from the source text, agree with the model's on every kind
(proved by arithmetic, not by enumeration: any equivalent respelling of the ranges in the source still proves) -/
theorem kind_predicates_from_source (k : Nat) :
    Src.kindIsReplaceable k = isReplaceable k ∧ Src.kindIsEphemeral k = isEphemeral k ∧
      Src.kindIsParamReplaceable k = isParamReplaceable k := by
  refine ⟨?_, ?_, ?_⟩
  · rw [Bool.eq_iff_iff]; simp [Src.kindIsReplaceable, isReplaceable] <;> omega
  · rw [Bool.eq_iff_iff]; simp [Src.kindIsEphemeral, isEphemeral] <;> omega
  · rw [Bool.eq_iff_iff]; simp [Src.kindIsParamReplaceable, isParamReplaceable] <;> omega

end Pocket
