import Pocket.Model.Keys
import Pocket.Lemmas.StoreInv
/- Bytewise key order = the order the store model scans in (C05, C09, C17): for keys of one table that
share their prefix, `k₁ < k₂` bytewise iff the first event is newer, or equally old with the smaller id;
a key lies inside the bounds of a range scan iff its prefix is the probe's and `since ≤ created_at ≤
until` — the largest and smallest ids included. -/
namespace Pocket

theorem bytesLt_irrefl (a : Bytes) : bytesLt a a = false := by
  induction a with
  | nil => rfl
  | cons x a ih => simp [bytesLt, ih]

theorem bytesLt_append_left (p a b : Bytes) : bytesLt (p ++ a) (p ++ b) = bytesLt a b := by
  induction p with
  | nil => rfl
  | cons x p ih => simp [bytesLt, ih]

/-- fixed-width fields compare field by field -/
theorem bytesLt_append (a1 a2 b1 b2 : Bytes) (h : a1.length = a2.length) :
    bytesLt (a1 ++ b1) (a2 ++ b2) = (bytesLt a1 a2 || (a1 == a2 && bytesLt b1 b2)) := by
  induction a1 generalizing a2 with
  | nil =>
    cases a2 with
    | nil => simp [bytesLt]
    | cons y a2 => simp at h
  | cons x a1 ih =>
    cases a2 with
    | nil => simp at h
    | cons y a2 =>
      simp only [List.length_cons, Nat.add_right_cancel_iff] at h
      simp only [List.cons_append, bytesLt, ih a2 h]
      by_cases hxy : x = y
      · subst hxy; simp
      · have : (x == y) = false := by simpa using hxy
        simp [this, hxy]

/-- equal-length strings are totally ordered -/
theorem bytesLt_total (a b : Bytes) (h : a.length = b.length) (hne : a ≠ b) : bytesLt a b = true ∨ bytesLt b a = true := by
  induction a generalizing b with
  | nil =>
    cases b with
    | nil => exact absurd rfl hne
    | cons y b => simp at h
  | cons x a ih =>
    cases b with
    | nil => simp at h
    | cons y b =>
      simp only [List.length_cons, Nat.add_right_cancel_iff] at h
      simp only [bytesLt, Bool.or_eq_true, decide_eq_true_eq, Bool.and_eq_true, beq_iff_eq]
      by_cases hxy : x = y
      · subst hxy
        have hab : a ≠ b := fun hh => hne (by rw [hh])
        rcases ih b h hab with h1 | h1
        · exact Or.inl (Or.inr ⟨rfl, h1⟩)
        · exact Or.inr (Or.inr ⟨rfl, h1⟩)
      · rcases Nat.lt_or_gt_of_ne hxy with h1 | h1
        · exact Or.inl (Or.inl h1)
        · exact Or.inr (Or.inl h1)

theorem bytesLt_asymm (a b : Bytes) (h : bytesLt a b = true) : bytesLt b a = false := by
  induction a generalizing b with
  | nil => cases b <;> simp [bytesLt] at h ⊢
  | cons x a ih =>
    cases b with
    | nil => simp [bytesLt] at h
    | cons y b =>
      simp only [bytesLt, Bool.or_eq_true, decide_eq_true_eq, Bool.and_eq_true, beq_iff_eq] at h
      simp only [bytesLt, Bool.or_eq_false_iff, decide_eq_false_iff_not, Bool.and_eq_false_iff]
      rcases h with h | ⟨rfl, h⟩
      · exact ⟨by omega, Or.inl (by simp; omega)⟩
      · exact ⟨by omega, Or.inr (ih b h)⟩

theorem lex_lt (M x y r r' : Nat) (hr : r < M) (hr' : r' < M) :
    (x * M + r < y * M + r') ↔ (x < y ∨ (x = y ∧ r < r')) := by
  constructor
  · intro h
    by_cases hxy : x < y
    · exact Or.inl hxy
    · by_cases he : x = y
      · subst he; exact Or.inr ⟨rfl, by omega⟩
      · have hyx : y + 1 ≤ x := by omega
        have := Nat.mul_le_mul_right M hyx
        rw [Nat.succ_mul] at this
        omega
  · rintro (h | ⟨rfl, h⟩)
    · have hxy : x + 1 ≤ y := h
      have := Nat.mul_le_mul_right M hxy
      rw [Nat.succ_mul] at this
      omega
    · omega

/-- the number a big-endian byte string denotes -/
def beVal : Bytes → Nat
  | [] => 0
  | x :: xs => x * 256 ^ xs.length + beVal xs

theorem beVal_lt (l : Bytes) (h : ∀ b ∈ l, b < 256) : beVal l < 256 ^ l.length := by
  induction l with
  | nil => simp [beVal]
  | cons x xs ih =>
    have hx := h x (by simp)
    have := ih (fun b hb => h b (by simp [hb]))
    have h1 : (x + 1) * 256 ^ xs.length ≤ 256 * 256 ^ xs.length := Nat.mul_le_mul_right _ (by omega)
    rw [Nat.succ_mul] at h1
    simp only [beVal, List.length_cons, Nat.pow_succ]
    rw [Nat.mul_comm (256 ^ xs.length) 256]
    omega

/-- equal-length byte strings order like the numbers they denote -/
theorem bytesLt_beVal (a b : Bytes) (h : a.length = b.length) (ha : ∀ x ∈ a, x < 256) (hb : ∀ x ∈ b, x < 256) :
    bytesLt a b = decide (beVal a < beVal b) := by
  induction a generalizing b with
  | nil =>
    cases b with
    | nil => simp [bytesLt, beVal]
    | cons y b => simp at h
  | cons x a ih =>
    cases b with
    | nil => simp at h
    | cons y b =>
      simp only [List.length_cons, Nat.add_right_cancel_iff] at h
      have iha := ih b h (fun z hz => ha z (by simp [hz])) (fun z hz => hb z (by simp [hz]))
      have la := beVal_lt a (fun z hz => ha z (by simp [hz]))
      have lb := beVal_lt b (fun z hz => hb z (by simp [hz]))
      rw [h] at la
      simp only [bytesLt, beVal, iha, h]
      have key := lex_lt (256 ^ b.length) x y (beVal a) (beVal b) la lb
      by_cases hlt : x * 256 ^ b.length + beVal a < y * 256 ^ b.length + beVal b
      · simp only [hlt, decide_true, Bool.or_eq_true, decide_eq_true_eq, Bool.and_eq_true, beq_iff_eq]
        exact key.mp hlt
      · simp only [hlt, decide_false, Bool.or_eq_false_iff, decide_eq_false_iff_not, Bool.and_eq_false_iff,
          beq_eq_false_iff_ne, ne_eq]
        have := fun hh => hlt (key.mpr hh)
        refine ⟨fun h1 => this (Or.inl h1), ?_⟩
        by_cases he : x = y
        · right; intro h2; exact this (Or.inr ⟨he, h2⟩)
        · left; exact he

theorem be64_explicit (n : Nat) : be64 n =
    [n / 4294967296 / 16777216 % 256, n / 4294967296 / 65536 % 256, n / 4294967296 / 256 % 256, n / 4294967296 % 256,
     n / 16777216 % 256, n / 65536 % 256, n / 256 % 256, n % 256] := by
  simp [be64, le64, le32]

theorem be64_bytes (n : Nat) : ∀ b ∈ be64 n, b < 256 := by
  rw [be64_explicit]
  intro b hb
  simp only [List.mem_cons, List.not_mem_nil, or_false] at hb
  rcases hb with rfl | rfl | rfl | rfl | rfl | rfl | rfl | rfl <;> exact Nat.mod_lt _ (by omega)

theorem beVal_be64 (n : Nat) (h : n < 18446744073709551616) : beVal (be64 n) = n := by
  rw [be64_explicit]
  simp only [beVal, List.length_cons, List.length_nil]
  have e7 : 256 ^ (0 + 1 + 1 + 1 + 1 + 1 + 1 + 1) = 72057594037927936 := by decide
  have e6 : 256 ^ (0 + 1 + 1 + 1 + 1 + 1 + 1) = 281474976710656 := by decide
  have e5 : 256 ^ (0 + 1 + 1 + 1 + 1 + 1) = 1099511627776 := by decide
  have e4 : 256 ^ (0 + 1 + 1 + 1 + 1) = 4294967296 := by decide
  have e3 : 256 ^ (0 + 1 + 1 + 1) = 16777216 := by decide
  have e2 : 256 ^ (0 + 1 + 1) = 65536 := by decide
  have e1 : 256 ^ (0 + 1) = 256 := by decide
  have e0 : 256 ^ 0 = 1 := by decide
  rw [e7, e6, e5, e4, e3, e2, e1, e0]
  omega

theorem be64_length (a : Nat) : (be64 a).length = 8 := by rw [be64_explicit]; rfl

/-- big-endian bytes order like the numbers -/
theorem be64_lt (a b : Nat) (ha : a < 18446744073709551616) (hb : b < 18446744073709551616) :
    bytesLt (be64 a) (be64 b) = decide (a < b) := by
  rw [bytesLt_beVal _ _ (by rw [be64_length, be64_length]) (be64_bytes a) (be64_bytes b), beVal_be64 a ha, beVal_be64 b hb]

theorem be64_inj (a b : Nat) (ha : a < 18446744073709551616) (hb : b < 18446744073709551616)
    (h : be64 a = be64 b) : a = b := by
  have := congrArg beVal h
  rwa [beVal_be64 a ha, beVal_be64 b hb] at this

theorem revTime_lt (t1 t2 : Nat) (h1 : t1 ≤ U64MAX) (h2 : t2 ≤ U64MAX) :
    bytesLt (revTime t1) (revTime t2) = decide (t2 < t1) := by
  unfold revTime
  rw [be64_lt _ _ (by unfold U64MAX; omega) (by unfold U64MAX; omega)]
  unfold U64MAX at *
  by_cases h : t2 < t1
  · simp only [h, decide_true, decide_eq_true_eq]; omega
  · simp only [h, decide_false, decide_eq_false_iff_not]; omega

theorem revTime_eq (t1 t2 : Nat) (h1 : t1 ≤ U64MAX) (h2 : t2 ≤ U64MAX) : (revTime t1 == revTime t2) = (t1 == t2) := by
  by_cases h : t1 = t2
  · subst h; simp
  · have : revTime t1 ≠ revTime t2 := by
      intro hh
      unfold revTime at hh
      have := be64_inj _ _ (by unfold U64MAX; omega) (by unfold U64MAX; omega) hh
      unfold U64MAX at *; omega
    have e1 : (revTime t1 == revTime t2) = false := by simpa using this
    have e2 : (t1 == t2) = false := by simpa using h
    rw [e1, e2]

/-- **key order**: two keys of one table with the same prefix compare like (newest first, then
ascending id) — the `scanBefore` of the store model -/
theorem key_order (P : Bytes) (t1 t2 : Nat) (id1 id2 : Bytes) (h1 : t1 ≤ U64MAX) (h2 : t2 ≤ U64MAX) :
    bytesLt (P ++ (revTime t1 ++ id1)) (P ++ (revTime t2 ++ id2)) =
      (decide (t1 > t2) || (t1 == t2 && bytesLt id1 id2)) := by
  rw [bytesLt_append_left, bytesLt_append _ _ _ _ (by simp [revTime, be64_length]), revTime_lt t1 t2 h1 h2, revTime_eq t1 t2 h1 h2]

theorem not_lt_zeros (id : Bytes) (n : Nat) (h : id.length = n) : bytesLt id (List.replicate n 0) = false := by
  induction n generalizing id with
  | zero => cases id <;> simp_all [bytesLt]
  | succ n ih =>
    cases id with
    | nil => simp at h
    | cons x id =>
      simp only [List.length_cons, Nat.add_right_cancel_iff] at h
      simp only [List.replicate_succ, bytesLt, ih id h, Bool.and_false, Bool.or_false, decide_eq_false_iff_not]
      omega

theorem not_ffs_lt (id : Bytes) (n : Nat) (h : id.length = n) (hb : ∀ b ∈ id, b < 256) :
    bytesLt (List.replicate n 255) id = false := by
  induction n generalizing id with
  | zero => cases id <;> simp_all [bytesLt]
  | succ n ih =>
    cases id with
    | nil => simp at h
    | cons x id =>
      simp only [List.length_cons, Nat.add_right_cancel_iff] at h
      have hx := hb x (by simp)
      simp only [List.replicate_succ, bytesLt, ih id h (fun b hb' => hb b (by simp [hb'])), Bool.and_false, Bool.or_false,
        decide_eq_false_iff_not]
      omega

/-- **range bounds**: a key `P' ++ revTime t ++ id` lies within
`[P ++ revTime until ++ 00…00, P ++ revTime since ++ ff…ff]` (both inclusive) iff its prefix is `P` and
`since ≤ t ≤ until` — whatever the id, the all-ones and all-zero ids included -/
theorem key_in_range (P P' : Bytes) (hP : P'.length = P.length) (since «until» t : Nat) (id : Bytes)
    (hs : since ≤ U64MAX) (hu : «until» ≤ U64MAX) (ht : t ≤ U64MAX) (hid : id.length = 32) (hb : ∀ b ∈ id, b < 256) :
    inRange (P ++ (revTime «until» ++ zeros32)) (P ++ (revTime since ++ ffs32)) (P' ++ (revTime t ++ id)) =
      (P' == P && decide (since ≤ t) && decide (t ≤ «until»)) := by
  unfold inRange
  rw [bytesLt_append P' P _ _ hP, bytesLt_append P P' _ _ hP.symm]
  by_cases hPP : P' = P
  · subst hPP
    simp only [bytesLt_irrefl, Bool.false_or, beq_self_eq_true, Bool.true_and]
    rw [bytesLt_append _ _ _ _ (by simp [revTime, be64_length]), bytesLt_append _ _ _ _ (by simp [revTime, be64_length]), revTime_lt t «until» ht hu,
      revTime_lt since t hs ht, revTime_eq t «until» ht hu, revTime_eq since t hs ht]
    have z := not_lt_zeros id 32 hid
    have f := not_ffs_lt id 32 hid hb
    unfold zeros32 ffs32
    rw [z, f]
    simp only [Bool.and_false, Bool.or_false]
    by_cases h1 : since ≤ t <;> by_cases h2 : t ≤ «until» <;> simp [h1, h2] <;> omega
  · have hne : (P' == P) = false := by simpa using hPP
    have hne' : (P == P') = false := by simpa using (fun h => hPP h.symm)
    simp only [hne, hne', Bool.false_and, Bool.or_false]
    rcases bytesLt_total P' P hP hPP with h | h
    · simp [h]
    · simp [h]

/-! ### the six tables -/

theorem ci_range (since «until» t : Nat) (id : Bytes) (hs : since ≤ U64MAX) (hu : «until» ≤ U64MAX) (ht : t ≤ U64MAX)
    (hid : id.length = 32) (hb : ∀ b ∈ id, b < 256) :
    inRange (keyCi «until» zeros32) (keyCi since ffs32) (keyCi t id) = (decide (since ≤ t) && decide (t ≤ «until»)) := by
  have := key_in_range [] [] rfl since «until» t id hs hu ht hid hb
  simpa [keyCi] using this

theorem ac_range (a a' : Bytes) (ha : a'.length = a.length) (since «until» t : Nat) (id : Bytes) (hs : since ≤ U64MAX)
    (hu : «until» ≤ U64MAX) (ht : t ≤ U64MAX) (hid : id.length = 32) (hb : ∀ b ∈ id, b < 256) :
    inRange (keyAc a «until» zeros32) (keyAc a since ffs32) (keyAc a' t id) =
      (a' == a && decide (since ≤ t) && decide (t ≤ «until»)) :=
  key_in_range a a' ha since «until» t id hs hu ht hid hb

theorem be16_inj (a b : Nat) (ha : a < 65536) (hb : b < 65536) (h : be16 a = be16 b) : a = b := by
  unfold be16 at h
  simp only [List.cons.injEq, and_true] at h
  omega

theorem akc_range (a a' : Bytes) (ha : a'.length = a.length) (k k' : Nat) (hk : k < 65536) (hk' : k' < 65536)
    (since «until» t : Nat) (id : Bytes) (hs : since ≤ U64MAX) (hu : «until» ≤ U64MAX) (ht : t ≤ U64MAX)
    (hid : id.length = 32) (hb : ∀ b ∈ id, b < 256) :
    inRange (keyAkc a k «until» zeros32) (keyAkc a k since ffs32) (keyAkc a' k' t id) =
      ((a' == a && k' == k) && decide (since ≤ t) && decide (t ≤ «until»)) := by
  unfold keyAkc
  rw [key_in_range (a ++ be16 k) (a' ++ be16 k') (by simp [be16, ha]) since «until» t id hs hu ht hid hb]
  congr 2
  by_cases h1 : a' = a
  · subst h1
    by_cases h2 : k' = k
    · subst h2; simp
    · have hne : be16 k' ≠ be16 k := fun hh => h2 (be16_inj _ _ hk' hk hh)
      have e1 : (a' ++ be16 k' == a' ++ be16 k) = false := by
        simp only [beq_eq_false_iff_ne, ne_eq]
        intro hh; exact hne (List.append_cancel_left hh)
      have e2 : (k' == k) = false := by simpa using h2
      rw [e1, e2]; simp
  · have hne : a' ++ be16 k' ≠ a ++ be16 k := by
      intro hh
      exact h1 (List.append_inj_left hh ha)
    have e1 : (a' ++ be16 k' == a ++ be16 k) = false := by simpa using hne
    have e2 : (a' == a) = false := by simpa using h1
    rw [e1, e2]; simp

/-- the tag tables: the prefix is the letter and the padded (or cut) value -/
theorem tc_range (l l' : Nat) (v v' : Bytes) (since «until» t : Nat) (id : Bytes) (hs : since ≤ U64MAX)
    (hu : «until» ≤ U64MAX) (ht : t ≤ U64MAX) (hid : id.length = 32) (hb : ∀ b ∈ id, b < 256) :
    inRange (keyTc l v «until» zeros32) (keyTc l v since ffs32) (keyTc l' v' t id) =
      ((l' == l && pad182 v' == pad182 v) && decide (since ≤ t) && decide (t ≤ «until»)) := by
  have hlen : ∀ x : Bytes, (pad182 x).length = 182 := by
    intro x; unfold pad182; split <;> simp <;> omega
  unfold keyTc
  rw [key_in_range (l :: pad182 v) (l' :: pad182 v') (by simp [hlen]) since «until» t id hs hu ht hid hb]
  simp

/-- order inside every table: newest first, then ascending id -/
theorem ci_order (t1 t2 : Nat) (id1 id2 : Bytes) (h1 : t1 ≤ U64MAX) (h2 : t2 ≤ U64MAX) :
    bytesLt (keyCi t1 id1) (keyCi t2 id2) = (decide (t1 > t2) || (t1 == t2 && bytesLt id1 id2)) := by
  have := key_order [] t1 t2 id1 id2 h1 h2
  simpa [keyCi] using this

theorem ac_order (a : Bytes) (t1 t2 : Nat) (id1 id2 : Bytes) (h1 : t1 ≤ U64MAX) (h2 : t2 ≤ U64MAX) :
    bytesLt (keyAc a t1 id1) (keyAc a t2 id2) = (decide (t1 > t2) || (t1 == t2 && bytesLt id1 id2)) :=
  key_order a t1 t2 id1 id2 h1 h2

theorem akc_order (a : Bytes) (k t1 t2 : Nat) (id1 id2 : Bytes) (h1 : t1 ≤ U64MAX) (h2 : t2 ≤ U64MAX) :
    bytesLt (keyAkc a k t1 id1) (keyAkc a k t2 id2) = (decide (t1 > t2) || (t1 == t2 && bytesLt id1 id2)) :=
  key_order (a ++ be16 k) t1 t2 id1 id2 h1 h2

theorem tc_order (l : Nat) (v v' : Bytes) (hv : pad182 v' = pad182 v) (t1 t2 : Nat) (id1 id2 : Bytes)
    (h1 : t1 ≤ U64MAX) (h2 : t2 ≤ U64MAX) :
    bytesLt (keyTc l v t1 id1) (keyTc l v' t2 id2) = (decide (t1 > t2) || (t1 == t2 && bytesLt id1 id2)) := by
  unfold keyTc
  rw [hv]
  exact key_order (l :: pad182 v) t1 t2 id1 id2 h1 h2

/-! ### a range scan over byte keys is the scan of the store model -/

def insertBy (lt : SEv → SEv → Bool) (x : SEv) : List SEv → List SEv
  | [] => [x]
  | y :: ys => if lt x y then x :: y :: ys else y :: insertBy lt x ys

def sortBy (lt : SEv → SEv → Bool) (l : List SEv) : List SEv := l.foldr (insertBy lt) []

/-- what a range read of a table returns: the entries whose key lies within the bounds, in bytewise key
order (`key x` = the key under which the table holds event `x`) -/
def byteScan (live : List SEv) (key : SEv → Bytes) (lo hi : Bytes) : List SEv :=
  sortBy (fun x y => bytesLt (key x) (key y)) (live.filter fun x => inRange lo hi (key x))

theorem mem_insertBy (lt : SEv → SEv → Bool) (x z : SEv) (l : List SEv) : z ∈ insertBy lt x l ↔ z = x ∨ z ∈ l := by
  induction l with
  | nil => simp [insertBy]
  | cons y ys ih =>
    simp only [insertBy]
    split
    · simp
    · simp only [List.mem_cons, ih]
      constructor
      · rintro (h | h | h)
        · exact Or.inr (Or.inl h)
        · exact Or.inl h
        · exact Or.inr (Or.inr h)
      · rintro (h | h | h)
        · exact Or.inr (Or.inl h)
        · exact Or.inl h
        · exact Or.inr (Or.inr h)

theorem mem_sortBy (lt : SEv → SEv → Bool) (z : SEv) (l : List SEv) : z ∈ sortBy lt l ↔ z ∈ l := by
  induction l with
  | nil => simp [sortBy]
  | cons x xs ih =>
    have : sortBy lt (x :: xs) = insertBy lt x (sortBy lt xs) := rfl
    rw [this, mem_insertBy, ih]; simp

theorem insertBy_congr (lt1 lt2 : SEv → SEv → Bool) (x : SEv) (l : List SEv) (h : ∀ y ∈ l, lt1 x y = lt2 x y) :
    insertBy lt1 x l = insertBy lt2 x l := by
  induction l with
  | nil => rfl
  | cons y ys ih =>
    simp only [insertBy, h y (by simp), ih (fun z hz => h z (by simp [hz]))]

theorem sortBy_congr (lt1 lt2 : SEv → SEv → Bool) (l : List SEv) (h : ∀ x ∈ l, ∀ y ∈ l, lt1 x y = lt2 x y) :
    sortBy lt1 l = sortBy lt2 l := by
  induction l with
  | nil => rfl
  | cons x xs ih =>
    have e1 : sortBy lt1 (x :: xs) = insertBy lt1 x (sortBy lt1 xs) := rfl
    have e2 : sortBy lt2 (x :: xs) = insertBy lt2 x (sortBy lt2 xs) := rfl
    rw [e1, e2, ih (fun a ha b hb => h a (by simp [ha]) b (by simp [hb]))]
    exact insertBy_congr lt1 lt2 x _ (fun y hy => h x (by simp) y (by
      have := (mem_sortBy lt2 y xs).mp hy; simp [this]))

theorem sortScan_eq (l : List SEv) : sortScan l = sortBy scanBefore l := by
  induction l with
  | nil => rfl
  | cons x xs ih =>
    have e1 : sortScan (x :: xs) = insertSorted x (sortScan xs) := rfl
    have e2 : sortBy scanBefore (x :: xs) = insertBy scanBefore x (sortBy scanBefore xs) := rfl
    rw [e1, e2, ih]
    generalize sortBy scanBefore xs = m
    induction m with
    | nil => rfl
    | cons y ys ih2 => simp only [insertSorted, insertBy, ih2]

/-- stored events have 32-byte ids and authors, byte-sized bytes, 16-bit kinds and 64-bit times -/
def KeyWf (x : SEv) : Prop :=
  x.e.id.length = 32 ∧ (∀ b ∈ x.e.id, b < 256) ∧ x.e.pubkey.length = 32 ∧ x.e.kind < 65536 ∧ x.e.createdAt ≤ U64MAX

/-- the general statement: if lying within the bounds means `p` and the time window, and all keys in
play share their prefix, a range read is the model's scan -/
theorem byteScan_eq_scan (live : List SEv) (key : SEv → Bytes) (lo hi : Bytes) (p : EventRec → Bool) (since «until» : Nat)
    (hr : ∀ x ∈ live, inRange lo hi (key x) = (p x.e && decide (since ≤ x.e.createdAt) && decide (x.e.createdAt ≤ «until»)))
    (ho : ∀ x ∈ live, ∀ y ∈ live, p x.e = true → p y.e = true → bytesLt (key x) (key y) = scanBefore x y) :
    byteScan live key lo hi = scan live p since «until» := by
  unfold byteScan scan
  rw [sortScan_eq]
  have hf : (live.filter fun x => inRange lo hi (key x)) =
      (live.filter fun x => p x.e && decide (since ≤ x.e.createdAt) && decide (x.e.createdAt ≤ «until»)) :=
    List.filter_congr (fun x hx => hr x hx)
  rw [hf]
  apply sortBy_congr
  intro x hx y hy
  simp only [List.mem_filter, Bool.and_eq_true, decide_eq_true_eq] at hx hy
  exact ho x hx.1 y hy.1 hx.2.1.1 hy.2.1.1

theorem scanBefore_eq (x y : SEv) :
    scanBefore x y = (decide (x.e.createdAt > y.e.createdAt) || (x.e.createdAt == y.e.createdAt && bytesLt x.e.id y.e.id)) := rfl

/-- **the time index** -/
theorem ci_byteScan (live : List SEv) (hw : ∀ x ∈ live, KeyWf x) (since «until» : Nat) (hs : since ≤ U64MAX) (hu : «until» ≤ U64MAX) :
    byteScan live (fun x => keyCi x.e.createdAt x.e.id) (keyCi «until» zeros32) (keyCi since ffs32) = ciScan live since «until» := by
  unfold ciScan
  apply byteScan_eq_scan
  · intro x hx
    obtain ⟨h1, h2, _, _, h5⟩ := hw x hx
    rw [ci_range since «until» _ _ hs hu h5 h1 h2]; simp
  · intro x hx y hy _ _
    rw [scanBefore_eq, ci_order _ _ _ _ (hw x hx).2.2.2.2 (hw y hy).2.2.2.2]

/-- **the author index** -/
theorem ac_byteScan (live : List SEv) (hw : ∀ x ∈ live, KeyWf x) (author : Bytes) (ha : author.length = 32)
    (since «until» : Nat) (hs : since ≤ U64MAX) (hu : «until» ≤ U64MAX) :
    byteScan live (fun x => keyAc x.e.pubkey x.e.createdAt x.e.id) (keyAc author «until» zeros32) (keyAc author since ffs32) =
      acScan live author since «until» := by
  unfold acScan
  apply byteScan_eq_scan
  · intro x hx
    obtain ⟨h1, h2, h3, _, h5⟩ := hw x hx
    rw [ac_range author x.e.pubkey (by rw [h3, ha]) since «until» _ _ hs hu h5 h1 h2]
  · intro x hx y hy hpx hpy
    simp only [beq_iff_eq] at hpx hpy
    rw [scanBefore_eq, hpx, hpy, ac_order _ _ _ _ _ (hw x hx).2.2.2.2 (hw y hy).2.2.2.2]

/-- **the author-kind index** -/
theorem akc_byteScan (live : List SEv) (hw : ∀ x ∈ live, KeyWf x) (author : Bytes) (ha : author.length = 32)
    (kind : Nat) (hk : kind < 65536) (since «until» : Nat) (hs : since ≤ U64MAX) (hu : «until» ≤ U64MAX) :
    byteScan live (fun x => keyAkc x.e.pubkey x.e.kind x.e.createdAt x.e.id) (keyAkc author kind «until» zeros32)
      (keyAkc author kind since ffs32) = akcScan live author kind since «until» := by
  unfold akcScan
  apply byteScan_eq_scan
  · intro x hx
    obtain ⟨h1, h2, h3, h4, h5⟩ := hw x hx
    rw [akc_range author x.e.pubkey (by rw [h3, ha]) kind x.e.kind hk h4 since «until» _ _ hs hu h5 h1 h2]
  · intro x hx y hy hpx hpy
    simp only [Bool.and_eq_true, beq_iff_eq] at hpx hpy
    rw [scanBefore_eq, hpx.1, hpx.2, hpy.1, hpy.2, akc_order _ _ _ _ _ _ (hw x hx).2.2.2.2 (hw y hy).2.2.2.2]

end Pocket
