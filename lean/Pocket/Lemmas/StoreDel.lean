import Pocket.Lemmas.StoreRead
/- what deletion handling and pre-removal can and cannot touch (C09, C10, C11) -/
namespace Pocket

/-- facts about the committed index used below: offsets and ids identify an entry -/
structure Uniq (c : List SEv) : Prop where
  off : ∀ x ∈ c, ∀ y ∈ c, x.off = y.off → x = y
  id : ∀ x ∈ c, ∀ y ∈ c, x.e.id = y.e.id → x = y

theorem pairwise_lt_inj (l : List SEv) (h : l.Pairwise (fun a b => a.off < b.off)) :
    ∀ x ∈ l, ∀ y ∈ l, x.off = y.off → x = y := by
  induction l with
  | nil => intro x hx; cases hx
  | cons a l ih =>
    rw [List.pairwise_cons] at h
    intro x hx y hy hxy
    rcases List.mem_cons.mp hx with rfl | hx' <;> rcases List.mem_cons.mp hy with rfl | hy'
    · rfl
    · have := h.1 y hy'; omega
    · have := h.1 x hx'; omega
    · exact ih h.2 x hx' y hy' hxy

theorem nodup_ids_inj (l : List SEv) (h : (l.map (·.e.id)).Nodup) :
    ∀ x ∈ l, ∀ y ∈ l, x.e.id = y.e.id → x = y := by
  induction l with
  | nil => intro x hx; cases hx
  | cons a l ih =>
    simp only [List.map_cons, List.nodup_cons] at h
    intro x hx y hy hxy
    rcases List.mem_cons.mp hx with rfl | hx' <;> rcases List.mem_cons.mp hy with rfl | hy'
    · rfl
    · exact absurd (List.mem_map.mpr ⟨y, hy', hxy.symm⟩) h.1
    · exact absurd (List.mem_map.mpr ⟨x, hx', hxy⟩) h.1
    · exact ih h.2 x hx' y hy' hxy

theorem Uniq_of_Inv (s : Store) (hi : Inv s) : Uniq s.db.live :=
  ⟨fun x hx y hy h => pairwise_lt_inj s.log hi.logSorted x (hi.liveInLog x hx) y (hi.liveInLog y hy) h,
   nodup_ids_inj _ hi.liveIds⟩

/-- pre-removal by `(author, kind)` keeps every committed entry that is not a victim -/
theorem mem_removeReplaceable (c t : List SEv) (hu : Uniq c) (a : Bytes) (k u : Nat) (v : SEv)
    (hv : v ∈ t) (hvc : v ∈ c) (hne : ¬ (v.e.pubkey = a ∧ v.e.kind = k ∧ v.e.createdAt ≤ u)) :
    v ∈ removeReplaceable c t a k u := by
  unfold removeReplaceable
  simp only [List.mem_filter, Bool.not_eq_true', List.any_eq_false, List.mem_filter, beq_iff_eq,
    Bool.and_eq_true, decide_eq_true_eq, and_imp]
  refine ⟨hv, ?_⟩
  intro x hx h1 h2 h3 hoff
  have := hu.off x hx v hvc hoff
  subst this
  exact hne ⟨h1, h2, h3⟩

theorem mem_removeParam (c t : List SEv) (hu : Uniq c) (k : Nat) (a d : Bytes) (u : Nat) (v : SEv)
    (hv : v ∈ t) (hvc : v ∈ c) (hne : ¬ (isParamHolder v.e k a d = true ∧ v.e.createdAt ≤ u)) :
    v ∈ removeParam c t k a d u := by
  unfold removeParam
  simp only [List.mem_filter, Bool.not_eq_true', List.any_eq_false, beq_iff_eq,
    Bool.and_eq_true, decide_eq_true_eq, and_imp]
  refine ⟨hv, ?_⟩
  intro x hx h1 h2 hoff
  have := hu.off x hx v hvc hoff
  subst this
  exact hne ⟨h1, h2⟩

theorem isParamHolder_pubkey (x : EventRec) (k : Nat) (a d : Bytes) (h : isParamHolder x k a d = true) :
    x.pubkey = a := by
  unfold isParamHolder at h
  simp only [Bool.and_eq_true, beq_iff_eq] at h
  exact h.1.1

theorem mem_removeAt (c t : List SEv) (hu : Uniq c) (k : Nat) (a d : Bytes) (u : Nat) (v : SEv)
    (hv : v ∈ t) (hvc : v ∈ c) (hne : ¬ v.e.pubkey = a) : v ∈ removeAt c t k a d u := by
  unfold removeAt
  repeat' split
  · exact mem_removeReplaceable c t hu _ _ _ v hv hvc (fun hh => hne hh.1)
  · exact mem_removeParam c t hu _ _ _ _ v hv hvc (fun hh => hne (isParamHolder_pubkey _ _ _ _ hh.1))
  · exact hv

/-- one tag of a deletion request leaves every committed event of *another* author indexed -/
theorem delTag_foreign (c : List SEv) (hu : Uniq c) (req : EventRec) (tag : List Bytes) (st st' : DelSt)
    (h : delTag c req tag st = .ok st') (v : SEv) (hvc : v ∈ c) (hv : v ∈ st.live)
    (hpk : v.e.pubkey ≠ req.pubkey) : v ∈ st'.live := by
  unfold delTag at h
  repeat' split at h
  all_goals first
    | (simp only [DelOut.ok.injEq] at h; subst h; exact hv)
    | skip
  · -- e tag
    rename_i id _
    unfold delE at h
    repeat' split at h
    all_goals first
      | (cases h; done)
      | (simp only [DelOut.ok.injEq] at h; subst h; first | exact hv | skip)
    rename_i target hfind hauth
    obtain ⟨htc, hid⟩ := findById_some_mem _ _ _ hfind
    simp only [removeId, List.mem_filter, bne_iff_ne, ne_eq]
    refine ⟨hv, ?_⟩
    intro hvid
    have : v = target := hu.id v hvc target htc (by rw [hvid, hid])
    subst this
    simp only [bne_iff_ne, ne_eq, Decidable.not_not] at hauth
    exact hpk hauth
  · -- a tag
    rename_i kind author d0 _
    unfold delA at h
    by_cases hauth : (author != req.pubkey) = true
    · rw [if_pos hauth] at h; cases h
    · rw [if_neg hauth] at h
      have hauth' : author = req.pubkey := by simpa using hauth
      split at h
      · cases h
      · simp only [DelOut.ok.injEq] at h; subst h
        exact mem_removeAt c _ hu _ _ _ _ v hv hvc (fun hh => hpk (hh.trans hauth'))

theorem handleDeletion_foreign (c : List SEv) (hu : Uniq c) (req : EventRec) (tags : TagsRec) (st st' : DelSt)
    (h : handleDeletion c req tags st = .ok st') (v : SEv) (hvc : v ∈ c) (hv : v ∈ st.live)
    (hpk : v.e.pubkey ≠ req.pubkey) : v ∈ st'.live := by
  induction tags generalizing st with
  | nil => simp [handleDeletion] at h; subst h; exact hv
  | cons tag rest ih =>
    unfold handleDeletion at h
    split at h
    · rename_i st1 h1
      exact ih _ h (delTag_foreign c hu req tag st st1 h1 v hvc hv hpk)
    · cases h
    · cases h

/-- pre-removal keeps every event of another author -/
theorem preRemove_foreign (c : List SEv) (hu : Uniq c) (e : EventRec) (v : SEv) (hv : v ∈ c)
    (hpk : v.e.pubkey ≠ e.pubkey) : v ∈ (preRemove c e).1 := by
  unfold preRemove
  repeat' split
  · exact mem_removeReplaceable c c hu _ _ _ v hv hv (fun hh => hpk hh.1)
  · exact mem_removeParam c c hu _ _ _ _ v hv hv (fun hh => hpk (isParamHolder_pubkey _ _ _ _ hh.1))
  · exact hv
  · exact hv

/-- **no store by one key can make another key's event unretrievable** — whatever the stored event
is (a replacement, a deletion request naming ids or addresses in any order, …) and whatever it
returns -/
theorem store_keeps_foreign (s : Store) (hi : Inv s) (e : EventRec) (v : SEv) (hv : v ∈ s.db.live)
    (hpk : v.e.pubkey ≠ e.pubkey) : v ∈ (storeEvent s e).2.db.live := by
  have hu := Uniq_of_Inv s hi
  have hpre := preRemove_foreign s.db.live hu e v hv hpk
  have htxn : v ∈ txnLive s e := by
    unfold txnLive; split
    · exact hpre
    · exact List.mem_append_left _ hpre
  rcases storeEvent_cases s e with ⟨r, _, _, h⟩ | h | ⟨_, _, h⟩ | ⟨_, _, st, hd, h⟩ | h | h <;> rw [h]
  · exact hv
  · exact hv
  · exact htxn
  · exact handleDeletion_foreign s.db.live hu e e.tags _ st hd v hv htxn hpk
  · exact hv
  · exact hv

end Pocket

namespace Pocket

theorem delAddrGet_put (m : List (AddrKey × Nat)) (k k' : AddrKey) (t : Nat) :
    delAddrGet (delAddrPut m k t) k' = if k' = k then some t else delAddrGet m k' := by
  induction m with
  | nil =>
    unfold delAddrPut delAddrGet
    by_cases h : k' = k
    · subst h; simp [List.find?_cons]
    · have : (k == k') = false := by simp; exact fun hh => h hh.symm
      simp [List.find?_cons, this, h]
  | cons x xs ih =>
    unfold delAddrPut
    by_cases hx : (x.1 == k) = true
    · have hxk : x.1 = k := by simpa using hx
      rw [if_pos hx]
      unfold delAddrGet
      by_cases h : k' = k
      · subst h; simp [List.find?_cons]
      · have h1 : (k == k') = false := by simp; exact fun hh => h hh.symm
        have h2 : (x.1 == k') = false := by rw [hxk]; exact h1
        simp [List.find?_cons, h1, h2, h]
    · rw [if_neg hx]
      have hxk : x.1 ≠ k := by simpa using hx
      unfold delAddrGet at ih ⊢
      by_cases hxk' : (x.1 == k') = true
      · have e1 : x.1 = k' := by simpa using hxk'
        have : k' ≠ k := by rw [← e1]; exact hxk
        simp [List.find?_cons, hxk', this]
      · simp only [List.find?_cons, hxk']
        exact ih

theorem addDelId_mono (di : List Bytes) (id x : Bytes) (h : x ∈ di) : x ∈ addDelId di id := by
  unfold addDelId; split
  · exact h
  · exact List.mem_append_left _ h

theorem mem_addDelId (di : List Bytes) (id x : Bytes) (h : x ∈ addDelId di id) : x ∈ di ∨ x = id := by
  unfold addDelId at h; split at h
  · exact Or.inl h
  · rcases List.mem_append.mp h with h | h
    · exact Or.inl h
    · exact Or.inr (by simpa using h)

/-- markers one tag can add: ids only of the requester's own committed events (or of events that
are not stored); addresses only of the requester -/
theorem delTag_markers (c : List SEv) (hu : Uniq c) (req : EventRec) (tag : List Bytes) (st st' : DelSt)
    (h : delTag c req tag st = .ok st') :
    (∀ id ∈ st'.delIds, id ∈ st.delIds ∨ ∀ v ∈ c, v.e.id = id → v.e.pubkey = req.pubkey) ∧
    (∀ id ∈ st.delIds, id ∈ st'.delIds) ∧
    (∀ k a d, a ≠ req.pubkey → delAddrGet st'.delAddrs (k, a, d) = delAddrGet st.delAddrs (k, a, d)) ∧
    (∀ key t, delAddrGet st.delAddrs key = some t → ∃ t', t ≤ t' ∧ delAddrGet st'.delAddrs key = some t') := by
  have triv : (∀ id ∈ st.delIds, id ∈ st.delIds ∨ ∀ v ∈ c, v.e.id = id → v.e.pubkey = req.pubkey) ∧
      (∀ id ∈ st.delIds, id ∈ st.delIds) ∧
      (∀ k a d, a ≠ req.pubkey → delAddrGet st.delAddrs (k, a, d) = delAddrGet st.delAddrs (k, a, d)) ∧
      (∀ key t, delAddrGet st.delAddrs key = some t → ∃ t', t ≤ t' ∧ delAddrGet st.delAddrs key = some t') :=
    ⟨fun id h => Or.inl h, fun id h => h, fun _ _ _ _ => rfl, fun key t h => ⟨t, Nat.le_refl _, h⟩⟩
  unfold delTag at h
  repeat' split at h
  all_goals first
    | (simp only [DelOut.ok.injEq] at h; subst h; exact triv)
    | skip
  · rename_i id _
    unfold delE at h
    repeat' split at h
    all_goals first
      | (cases h; done)
      | (simp only [DelOut.ok.injEq] at h; subst h; first | exact triv | skip)
    · rename_i target hfind hauth
      obtain ⟨htc, hid⟩ := findById_some_mem _ _ _ hfind
      simp only [bne_iff_ne, ne_eq, Decidable.not_not] at hauth
      refine ⟨?_, fun x hx => addDelId_mono _ _ _ hx, fun _ _ _ _ => rfl, fun key t h => ⟨t, Nat.le_refl _, h⟩⟩
      intro x hx
      rcases mem_addDelId _ _ _ hx with hx | rfl
      · exact Or.inl hx
      · refine Or.inr fun v hv hvid => ?_
        have : v = target := hu.id v hv target htc (by rw [hvid, hid])
        subst this; exact hauth
    · rename_i hfind
      refine ⟨?_, fun x hx => addDelId_mono _ _ _ hx, fun _ _ _ _ => rfl, fun key t h => ⟨t, Nat.le_refl _, h⟩⟩
      intro x hx
      rcases mem_addDelId _ _ _ hx with hx | rfl
      · exact Or.inl hx
      · refine Or.inr fun v hv hvid => ?_
        have := findById_none_not_mem _ _ hfind
        exact absurd (List.mem_map.mpr ⟨v, hv, hvid⟩) this
  · rename_i kind author d0 _
    unfold delA at h
    by_cases hauth : (author != req.pubkey) = true
    · rw [if_pos hauth] at h; cases h
    · rw [if_neg hauth] at h
      have hauth' : author = req.pubkey := by simpa using hauth
      split at h
      · cases h
      · simp only [DelOut.ok.injEq] at h; subst h
        dsimp only
        refine ⟨fun id h => Or.inl h, fun id h => h, ?_, ?_⟩
        · intro k a d ha
          rw [delAddrGet_put]
          have : (k, a, d) ≠ (kind, author, normD kind d0) := by
            intro hh; injection hh with _ h2; injection h2 with h3 _; exact ha (h3.trans hauth')
          rw [if_neg this]
        · intro key t hk
          rw [delAddrGet_put]
          by_cases hkey : key = (kind, author, normD kind d0)
          · rw [if_pos hkey]
            subst hkey
            refine ⟨_, ?_, rfl⟩
            unfold laterTime; rw [hk]; dsimp only; split <;> omega
          · rw [if_neg hkey]; exact ⟨t, Nat.le_refl _, hk⟩

theorem handleDeletion_markers (c : List SEv) (hu : Uniq c) (req : EventRec) (tags : TagsRec) (st st' : DelSt)
    (h : handleDeletion c req tags st = .ok st') :
    (∀ id ∈ st'.delIds, id ∈ st.delIds ∨ ∀ v ∈ c, v.e.id = id → v.e.pubkey = req.pubkey) ∧
    (∀ id ∈ st.delIds, id ∈ st'.delIds) ∧
    (∀ k a d, a ≠ req.pubkey → delAddrGet st'.delAddrs (k, a, d) = delAddrGet st.delAddrs (k, a, d)) ∧
    (∀ key t, delAddrGet st.delAddrs key = some t → ∃ t', t ≤ t' ∧ delAddrGet st'.delAddrs key = some t') := by
  induction tags generalizing st with
  | nil =>
    simp [handleDeletion] at h; subst h
    exact ⟨fun id h => Or.inl h, fun id h => h, fun _ _ _ _ => rfl, fun key t h => ⟨t, Nat.le_refl _, h⟩⟩
  | cons tag rest ih =>
    unfold handleDeletion at h
    split at h
    · rename_i st1 h1
      obtain ⟨a1, a2, a3, a4⟩ := delTag_markers c hu req tag st st1 h1
      obtain ⟨b1, b2, b3, b4⟩ := ih _ h
      refine ⟨?_, fun id hid => b2 id (a2 id hid), fun k a d ha => (b3 k a d ha).trans (a3 k a d ha), ?_⟩
      · intro id hid
        rcases b1 id hid with h' | h'
        · exact a1 id h'
        · exact Or.inr h'
      · intro key t hk
        obtain ⟨t1, ht1, hk1⟩ := a4 key t hk
        obtain ⟨t2, ht2, hk2⟩ := b4 key t1 hk1
        exact ⟨t2, Nat.le_trans ht1 ht2, hk2⟩
    · cases h
    · cases h

/-- the markers after any `store_event` (whatever it returns) -/
theorem storeEvent_markers (s : Store) (hi : Inv s) (e : EventRec) :
    (∀ id ∈ (storeEvent s e).2.db.delIds, id ∈ s.db.delIds ∨
        ∀ v ∈ s.db.live, v.e.id = id → v.e.pubkey = e.pubkey) ∧
    (∀ id ∈ s.db.delIds, id ∈ (storeEvent s e).2.db.delIds) ∧
    (∀ k a d, a ≠ e.pubkey →
        delAddrGet (storeEvent s e).2.db.delAddrs (k, a, d) = delAddrGet s.db.delAddrs (k, a, d)) ∧
    (∀ key t, delAddrGet s.db.delAddrs key = some t →
        ∃ t', t ≤ t' ∧ delAddrGet (storeEvent s e).2.db.delAddrs key = some t') := by
  have triv : (∀ id ∈ s.db.delIds, id ∈ s.db.delIds ∨ ∀ v ∈ s.db.live, v.e.id = id → v.e.pubkey = e.pubkey) ∧
      (∀ id ∈ s.db.delIds, id ∈ s.db.delIds) ∧
      (∀ k a d, a ≠ e.pubkey → delAddrGet s.db.delAddrs (k, a, d) = delAddrGet s.db.delAddrs (k, a, d)) ∧
      (∀ key t, delAddrGet s.db.delAddrs key = some t → ∃ t', t ≤ t' ∧ delAddrGet s.db.delAddrs key = some t') :=
    ⟨fun id h => Or.inl h, fun id h => h, fun _ _ _ _ => rfl, fun key t h => ⟨t, Nat.le_refl _, h⟩⟩
  rcases storeEvent_cases s e with ⟨r, _, _, h⟩ | h | ⟨_, _, h⟩ | ⟨_, _, st, hd, h⟩ | h | h <;> rw [h]
  · exact triv
  · exact triv
  · exact triv
  · exact handleDeletion_markers s.db.live (Uniq_of_Inv s hi) e e.tags _ st hd
  · exact triv
  · exact triv

end Pocket
