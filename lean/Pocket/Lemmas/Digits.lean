import Pocket.Model.JsonParse
/- decimal literals: `format!("{}", n)` read back by `read_u64` / `read_kind` -/
namespace Pocket

/-- the input after the number does not continue it -/
def NoLeadingDigit (rest : Bytes) : Prop := ∀ b r, rest = b :: r → isDigit b = false

theorem isDigit_digit (d : Nat) (h : d < 10) : isDigit (48 + d) = true := by
  unfold isDigit; simp; omega

theorem readU64Loop_stop (rest : Bytes) (acc : Nat) (any : Bool) (h : NoLeadingDigit rest) :
    readU64Loop rest acc any = .ok (acc, any, rest) := by
  cases rest with
  | nil => rfl
  | cons b r => simp [readU64Loop, h b r rfl]

theorem readKindLoop_stop (rest : Bytes) (acc : Nat) (any : Bool) (h : NoLeadingDigit rest) :
    readKindLoop rest acc any = .ok (acc, any, rest) := by
  cases rest with
  | nil => rfl
  | cons b r => simp [readKindLoop, h b r rfl]

theorem readU64Loop_digits (f n : Nat) (rest : Bytes) (any : Bool) (hf : n < f) :
    readU64Loop (decDigits f n ++ rest) 0 any =
      if n ≤ U64MAX then readU64Loop rest n true else .err := by
  induction f generalizing n rest any with
  | zero => omega
  | succ f ih =>
    unfold decDigits
    by_cases h10 : n < 10
    · simp only [h10, if_true, List.cons_append, List.nil_append, readU64Loop, isDigit_digit n h10]
      have : 0 * 10 + (48 + n - 48) = n := by omega
      rw [this]
      have : ¬ n > U64MAX := by unfold U64MAX; omega
      have h2 : n ≤ U64MAX := by unfold U64MAX; omega
      simp only [this, if_false, h2, if_true]
    · simp only [h10, if_false, List.append_assoc, List.cons_append, List.nil_append]
      rw [ih (n / 10) _ any (by omega)]
      by_cases hq : n / 10 ≤ U64MAX
      · simp only [hq, if_true, readU64Loop, isDigit_digit (n % 10) (Nat.mod_lt _ (by omega))]
        have : n / 10 * 10 + (48 + n % 10 - 48) = n := by omega
        rw [this]
        by_cases hn : n ≤ U64MAX
        · have : ¬ n > U64MAX := by omega
          simp only [this, if_false, hn, if_true]
        · have : n > U64MAX := by omega
          simp only [this, if_true, hn, if_false]
      · have : ¬ n ≤ U64MAX := by unfold U64MAX at *; omega
        simp only [hq, this, if_false]

theorem readU64_decOf (n : Nat) (rest : Bytes) (hn : n < 18446744073709551616)
    (hr : NoLeadingDigit rest) : readU64 (decOf n ++ rest) = .ok (n, rest) := by
  unfold readU64 decOf
  rw [readU64Loop_digits (n + 1) n rest false (by omega)]
  have : n ≤ U64MAX := by unfold U64MAX; omega
  simp only [this, if_true, readU64Loop_stop rest n true hr]

theorem readU64_decOf_wide (n : Nat) (rest : Bytes) (hn : n ≥ 18446744073709551616)
    (_hr : NoLeadingDigit rest) : readU64 (decOf n ++ rest) = .err := by
  unfold readU64 decOf
  rw [readU64Loop_digits (n + 1) n rest false (by omega)]
  have : ¬ n ≤ U64MAX := by unfold U64MAX; omega
  simp only [this, if_false]

theorem readKindLoop_digits (f n : Nat) (rest : Bytes) (any : Bool) (hf : n < f) :
    readKindLoop (decDigits f n ++ rest) 0 any =
      if n ≤ 65535 then readKindLoop rest n true else .err := by
  induction f generalizing n rest any with
  | zero => omega
  | succ f ih =>
    unfold decDigits
    by_cases h10 : n < 10
    · simp only [h10, if_true, List.cons_append, List.nil_append, readKindLoop, isDigit_digit n h10]
      have : 0 * 10 + (48 + n - 48) = n := by omega
      rw [this]
      have : ¬ n > 65535 := by omega
      have h2 : n ≤ 65535 := by omega
      simp only [this, if_false, h2, if_true]
    · simp only [h10, if_false, List.append_assoc, List.cons_append, List.nil_append]
      rw [ih (n / 10) _ any (by omega)]
      by_cases hq : n / 10 ≤ 65535
      · simp only [hq, if_true, readKindLoop, isDigit_digit (n % 10) (Nat.mod_lt _ (by omega))]
        have : n / 10 * 10 + (48 + n % 10 - 48) = n := by omega
        rw [this]
        by_cases hn : n ≤ 65535
        · have : ¬ n > 65535 := by omega
          simp only [this, if_false, hn, if_true]
        · have : n > 65535 := by omega
          simp only [this, if_true, hn, if_false]
      · have : ¬ n ≤ 65535 := by omega
        simp only [hq, this, if_false]

theorem readKind_decOf (n : Nat) (rest : Bytes) (hn : n < 65536) (hr : NoLeadingDigit rest) :
    readKind (decOf n ++ rest) = .ok (n, rest) := by
  unfold readKind decOf
  rw [readKindLoop_digits (n + 1) n rest false (by omega)]
  have : n ≤ 65535 := by omega
  simp only [this, if_true, readKindLoop_stop rest n true hr]

theorem readKind_decOf_wide (n : Nat) (rest : Bytes) (hn : n ≥ 65536) (_hr : NoLeadingDigit rest) :
    readKind (decOf n ++ rest) = .err := by
  unfold readKind decOf
  rw [readKindLoop_digits (n + 1) n rest false (by omega)]
  have : ¬ n ≤ 65535 := by omega
  simp only [this, if_false]

end Pocket
