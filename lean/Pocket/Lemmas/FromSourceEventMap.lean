import Pocket.Src.EventStore
import Pocket.Model.EventMap
/- `event_store.rs` as it reads NOW (`Pocket/Src/EventStore.lean`, regenerated on every check run) against the model of the event-map
file (`Model/EventMap.lean`) that the growth, never-shrinks and crash theorems of C04 / C13 / C16 are about. -/
namespace Pocket

/-- `EventStore::new`: the model opens a file exactly as the source does — same test for "new", same initial length, the remembered
length is the file's (not the used part of the mapping), an `usize` and the header of the mapping being 8 bytes -/
theorem em_open_from_source (chunk fileLen marker : Nat) :
    emOpen chunk fileLen marker =
      (let len := Src.esInitLen chunk fileLen marker 8 8
       if len < 8 then .err
       else .ok { fileLen := len, marker := if Src.esNew fileLen marker 8 8 then 8 else marker,
                  memLen := Src.esRemembered len, mapLen := len }) := by
  simp [emOpen, Src.esInitLen, Src.esNew, Src.esRemembered]

/-- the alignment padding `store_event` appends -/
theorem em_pad_from_source (m : EMap) : emPad m = Src.esPad m.marker := by
  simp only [emPad, Src.esPad, bne_iff_ne, ne_eq, ite_not]

/-- one round of the grow path: file, mapping and remembered length all become the REMEMBERED length plus one chunk -/
theorem em_grow_from_source (chunk : Nat) (m : EMap) :
    emGrow chunk m =
      { m with fileLen := (Src.esGrow chunk m.fileLen m.mapLen m.memLen).1,
               mapLen := (Src.esGrow chunk m.fileLen m.mapLen m.memLen).2.1,
               memLen := (Src.esGrow chunk m.fileLen m.mapLen m.memLen).2.2 } := by
  simp [emGrow, Src.esGrow]

end Pocket
