import Pocket.Model.EventMap
import Pocket.Lemmas.StoreInv
/- The event map never shrinks, never runs out of room in the padding step, always finds room in the
grow loop, and every state a kill can leave reopens to a consistent map with the same end marker
(C04, C13, C16). -/
namespace Pocket

/-- the map as a live `EventStore` holds it between calls -/
structure EMInv (m : EMap) : Prop where
  hdr : 8 ≤ m.marker
  inMap : m.marker ≤ m.mapLen
  mapFile : m.mapLen = m.fileLen
  memFile : m.memLen = m.fileLen
  al : m.fileLen % 8 = 0

theorem emPad_spec (m : EMap) : m.marker + emPad m = align8 m.marker := by
  unfold emPad align8
  split <;> omega

theorem align8_le_of_mod (a b : Nat) (h : a ≤ b) (hb : b % 8 = 0) : align8 a ≤ b := by
  unfold align8; split <;> omega

/-- the padding append never runs out of space -/
theorem emPad_ok (m : EMap) (hi : EMInv m) :
    (if emPad m = 0 then some m else emAppend m (emPad m)) = some { m with marker := align8 m.marker } := by
  have hs := emPad_spec m
  have hle := align8_le_of_mod m.marker m.mapLen hi.inMap (by rw [hi.mapFile]; exact hi.al)
  by_cases hp : emPad m = 0
  · rw [if_pos hp]
    have : align8 m.marker = m.marker := by omega
    rw [this]
  · rw [if_neg hp]
    unfold emAppend
    rw [if_neg (by omega), hs]

theorem emGrow_inv (chunk : Nat) (hc : chunk % 8 = 0) (m : EMap) (hi : EMInv m) :
    EMInv (emGrow chunk m) ∧ (emGrow chunk m).fileLen = m.fileLen + chunk ∧ (emGrow chunk m).marker = m.marker := by
  obtain ⟨h1, h2, h3, h4, h5⟩ := hi
  refine ⟨⟨h1, ?_, rfl, rfl, ?_⟩, ?_, rfl⟩ <;> simp only [emGrow] <;> omega

/-- the grow loop always ends in an append: the offset is the old marker, the file only grew -/
theorem emStoreLoop_ok (k chunk : Nat) (hc : chunk % 8 = 0) (m : EMap) (hi : EMInv m) (size : Nat)
    (hf : m.marker + size ≤ m.mapLen + k * chunk) :
    ∃ m', emStoreLoop (k + 1) chunk m size = .ok (m.marker, m') ∧ EMInv m' ∧ m'.marker = m.marker + size ∧
      m.fileLen ≤ m'.fileLen := by
  induction k generalizing m with
  | zero =>
    unfold emStoreLoop emAppend
    rw [if_neg (by omega)]
    exact ⟨{ m with marker := m.marker + size }, rfl,
      ⟨by have := hi.hdr; show 8 ≤ m.marker + size; omega, by show m.marker + size ≤ m.mapLen; omega,
        hi.mapFile, hi.memFile, hi.al⟩, rfl, Nat.le_refl _⟩
  | succ k ih =>
    unfold emStoreLoop emAppend
    by_cases hfit : m.marker + size > m.mapLen
    · rw [if_pos hfit]
      obtain ⟨gi, gl, gm⟩ := emGrow_inv chunk hc m hi
      have hmap : (emGrow chunk m).mapLen = m.mapLen + chunk := by
        rw [gi.mapFile, gl, hi.mapFile]
      have hsm : (k + 1) * chunk = k * chunk + chunk := Nat.succ_mul k chunk
      have hf' : (emGrow chunk m).marker + size ≤ (emGrow chunk m).mapLen + k * chunk := by
        rw [gm, hmap]; omega
      obtain ⟨m', h1, h2, h3, h4⟩ := ih (emGrow chunk m) gi hf'
      exact ⟨m', by simp only []; rw [h1, gm], h2, by rw [h3, gm], by omega⟩
    · rw [if_neg hfit]
      exact ⟨{ m with marker := m.marker + size }, rfl,
        ⟨by have := hi.hdr; show 8 ≤ m.marker + size; omega, by show m.marker + size ≤ m.mapLen; omega,
          hi.mapFile, hi.memFile, hi.al⟩, rfl, Nat.le_refl _⟩

theorem div_fuel (size chunk : Nat) (hpos : 0 < chunk) : size ≤ (size / chunk + 1) * chunk := by
  have := Nat.div_add_mod size chunk
  have := Nat.mod_lt size hpos
  rw [Nat.succ_mul, Nat.mul_comm]
  omega

/-- **`EventStore::store_event`**: on a consistent map the call succeeds, returns the 8-aligned old end,
advances the end by exactly the event's size, and the file is at least as long as before -/
theorem emStore_ok (chunk : Nat) (hc : chunk % 8 = 0) (hpos : 0 < chunk) (m : EMap) (hi : EMInv m) (size : Nat) :
    ∃ m', emStore chunk m size = .ok (align8 m.marker, m') ∧ EMInv m' ∧ m'.marker = align8 m.marker + size ∧
      m.fileLen ≤ m'.fileLen := by
  unfold emStore
  rw [emPad_ok m hi]
  have hle := align8_le_of_mod m.marker m.mapLen hi.inMap (by rw [hi.mapFile]; exact hi.al)
  have hi1 : EMInv { m with marker := align8 m.marker } :=
    ⟨by have := hi.hdr; have := align8_ge m.marker; simp only; omega, hle, hi.mapFile, hi.memFile, hi.al⟩
  have hfu := div_fuel size chunk hpos
  obtain ⟨m', h1, h2, h3, h4⟩ := emStoreLoop_ok (size / chunk + 1) chunk hc _ hi1 size
    (by show align8 m.marker + size ≤ m.mapLen + (size / chunk + 1) * chunk; omega)
  exact ⟨m', h1, h2, h3, h4⟩

/-- `EventStore::new` on what a consistent map leaves on disk — also when it is full to its last
byte — continues from the same end, with the real file length -/
theorem emOpen_existing (chunk fileLen marker : Nat) (h8 : 8 ≤ marker) (hle : marker ≤ fileLen) (hal : fileLen % 8 = 0) :
    ∃ m, emOpen chunk fileLen marker = .ok m ∧ EMInv m ∧ m.marker = marker ∧ m.fileLen = fileLen := by
  unfold emOpen
  have n1 : ¬ fileLen < 8 := by omega
  have n2 : ¬ marker < 8 := by omega
  simp only [n1, n2, decide_false, Bool.or_false, Bool.false_and, Bool.false_eq_true, if_false]
  exact ⟨_, rfl, ⟨h8, hle, rfl, rfl, hal⟩, rfl, rfl⟩

/-- a file that was never initialised (absent, empty, sized but the marker never written) becomes an
empty, initialised map of at least one chunk -/
theorem emOpen_fresh (chunk fileLen marker : Nat) (hc : chunk % 8 = 0) (hc8 : 8 ≤ chunk)
    (hnew : fileLen < 8 ∨ marker < 8) (hal : fileLen % 8 = 0 ∨ fileLen < chunk) :
    ∃ m, emOpen chunk fileLen marker = .ok m ∧ EMInv m ∧ m.marker = 8 ∧ fileLen ≤ m.fileLen ∧ chunk ≤ m.fileLen := by
  unfold emOpen
  have hn : (decide (fileLen < 8) || decide (marker < 8)) = true := by
    rcases hnew with h | h <;> simp [h]
  simp only [hn, Bool.true_and, if_true]
  by_cases hlt : fileLen < chunk
  · simp only [hlt, decide_true, if_true]
    rw [if_neg (by omega)]
    exact ⟨_, rfl, ⟨Nat.le_refl _, by first | omega | (simp only; omega), rfl, rfl, hc⟩, rfl, by first | omega | (simp only; omega), Nat.le_refl _⟩
  · simp only [hlt, decide_false, Bool.false_eq_true, if_false]
    rw [if_neg (by omega)]
    have : fileLen % 8 = 0 := by rcases hal with h | h <;> omega
    exact ⟨_, rfl, ⟨Nat.le_refl _, by first | omega | (simp only; omega), rfl, rfl, this⟩, rfl, Nat.le_refl _, by first | omega | (simp only; omega)⟩

theorem emLoopStates_spec (fuel chunk : Nat) (hc : chunk % 8 = 0) (m : EMap) (hi : EMInv m) (size : Nat) (fl mk : Nat)
    (h : (fl, mk) ∈ emLoopStates fuel chunk m size) :
    m.fileLen ≤ fl ∧ fl % 8 = 0 ∧ (mk = m.marker ∨ mk = m.marker + size) ∧ mk ≤ fl := by
  induction fuel generalizing m with
  | zero =>
    simp only [emLoopStates, List.mem_singleton, Prod.mk.injEq] at h
    obtain ⟨rfl, rfl⟩ := h
    exact ⟨Nat.le_refl _, hi.al, Or.inl rfl, by rw [← hi.mapFile]; exact hi.inMap⟩
  | succ f ih =>
    unfold emLoopStates emAppend at h
    by_cases hfit : m.marker + size > m.mapLen
    · rw [if_pos hfit] at h
      simp only [List.mem_cons, Prod.mk.injEq] at h
      rcases h with ⟨rfl, rfl⟩ | h
      · exact ⟨Nat.le_refl _, hi.al, Or.inl rfl, by rw [← hi.mapFile]; exact hi.inMap⟩
      · obtain ⟨gi, gl, gm⟩ := emGrow_inv chunk hc m hi
        obtain ⟨h1, h2, h3, h4⟩ := ih (emGrow chunk m) gi h
        exact ⟨by omega, h2, by rw [gm] at h3; exact h3, h4⟩
    · rw [if_neg hfit] at h
      simp only [List.mem_cons, Prod.mk.injEq, List.not_mem_nil, or_false] at h
      rcases h with ⟨rfl, rfl⟩ | ⟨rfl, rfl⟩
      · exact ⟨Nat.le_refl _, hi.al, Or.inl rfl, by rw [← hi.mapFile]; exact hi.inMap⟩
      · exact ⟨Nat.le_refl _, hi.al, Or.inr rfl, by show m.marker + size ≤ m.fileLen; rw [← hi.mapFile]; omega⟩

/-- **every durable state a kill inside `store_event` can leave** has a file at least as long as
before (nothing already written is cut off), an end marker that is the old one, the aligned one or the
final one, inside the file — and therefore reopens (`emOpen_existing`) to a consistent map with that
very marker and the real file length, from which later stores can only extend the file (`emStore_ok`) -/
theorem emStore_crash_states (chunk : Nat) (hc : chunk % 8 = 0) (m : EMap) (hi : EMInv m) (size fl mk : Nat)
    (h : (fl, mk) ∈ emStoreStates chunk m size) :
    m.fileLen ≤ fl ∧ fl % 8 = 0 ∧ 8 ≤ mk ∧ mk ≤ fl ∧
      (mk = m.marker ∨ mk = align8 m.marker ∨ mk = align8 m.marker + size) := by
  unfold emStoreStates at h
  rw [emPad_ok m hi] at h
  simp only [List.mem_cons, Prod.mk.injEq] at h
  have h8 := hi.hdr
  rcases h with ⟨rfl, rfl⟩ | h
  · exact ⟨Nat.le_refl _, hi.al, h8, by rw [← hi.mapFile]; exact hi.inMap, Or.inl rfl⟩
  · have hle := align8_le_of_mod m.marker m.mapLen hi.inMap (by rw [hi.mapFile]; exact hi.al)
    have hi1 : EMInv { m with marker := align8 m.marker } :=
      ⟨by have := align8_ge m.marker; simp only; omega, hle, hi.mapFile, hi.memFile, hi.al⟩
    obtain ⟨h1, h2, h3, h4⟩ := emLoopStates_spec _ chunk hc _ hi1 size fl mk h
    have := align8_ge m.marker
    refine ⟨h1, h2, ?_, h4, ?_⟩
    · rcases h3 with rfl | rfl <;> simp only <;> omega
    · rcases h3 with rfl | rfl
      · exact Or.inr (Or.inl rfl)
      · exact Or.inr (Or.inr rfl)

end Pocket
