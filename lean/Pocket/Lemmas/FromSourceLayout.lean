import Pocket.Src.Layout
import Pocket.Model.Event
import Pocket.Model.Filter
import Pocket.Lemmas.Layout
/- What the source says NOW about the binary layout of an event (`Pocket/Src/Layout.lean`: the contiguous writes of
`Event::from_parts`, `output_size_needed`, and the offsets the accessors read at, translated from event.rs on every check
run) against the model's encoder and decoder, which the round-trip, canonical-form and read-back theorems are about.
(`to_ne_bytes` is read as little-endian: the host's byte order, see the trusted base.) -/
namespace Pocket

theorem event_size_from_source (a b : Nat) : Src.eventSize a b = eventSize a b := rfl

/-- the bytes `Event::from_parts` writes, statement by statement, are the model's encoding -/
theorem event_writer_from_source (id pk sig : Bytes) (kind t : Nat) (tagBytes content : Bytes) :
    Src.encodeEventWith id pk sig kind t tagBytes content = encodeEventWith id pk sig kind t tagBytes content := by
  simp [Src.encodeEventWith, encodeEventWith, Src.eventSize, eventSize, List.append_assoc]

/-- the model's decoder with the places it reads at as parameters:
`[kind, created_at, id offset, id length, pubkey offset, pubkey length, sig offset, sig length, tags, tag-section length (as read
by content), width of the content length]` -/
def eventDecodeAt (r : List Nat) (b : Bytes) : Outcome EventRec :=
  match r with
  | [k, t, io, il, po, pl, so, sl, g, g2, w] =>
    (match rd16 b k, rd64 b t, slice b io il, slice b po pl, slice b so sl with
    | .ok kind, .ok t, .ok id, .ok pk, .ok sig =>
      if b.length < g then .panic
      else match tagsDelineate (b.drop g) with
        | .ok tb =>
          match tagsDecode tb with
          | .ok tags =>
            match rd16 b g2 with
            | .ok tl =>
              match rd32 b (g2 + tl) with
              | .ok cl =>
                match slice b (g2 + tl + w) cl with
                | .ok content => .ok ⟨id, pk, sig, kind, t, tags, content⟩
                | _ => .panic
              | _ => .panic
            | _ => .panic
          | .err => .err
          | .panic => .panic
        | .err => .err
        | .panic => .panic
    | _, _, _, _, _ => .panic)
  | _ => .panic

/-- every accessor of `Event` reads where the model's decoder reads -/
theorem event_readers_from_source (b : Bytes) : eventDecodeAt Src.evReads b = eventDecode b := by
  unfold Src.evReads eventDecodeAt eventDecode
  rfl

/-- the fixed header of a binary filter as `Filter::from_parts` writes it today is the head of the model's encoding; an absent
limit / since / until is written as `u32::MAX` / `0` / `u64::MAX` - the values the model (and the JSON parser) take for "absent" -/
theorem filter_header_from_source (ids authors : List Bytes) (kinds : List Nat) (tagBytes : Bytes) (since «until» limit : Nat) :
    encodeFilterWith ids authors kinds tagBytes since «until» limit =
      Src.filterHeader (filterSize ids.length authors.length kinds.length tagBytes.length) ids.length authors.length kinds.length
        (some limit) (some since) (some «until») ++ (flat32 ids ++ flat32 authors ++ flatKinds kinds ++ tagBytes) := by
  simp [encodeFilterWith, Src.filterHeader, List.append_assoc]

theorem filter_defaults_from_source (size a b c : Nat) :
    Src.filterHeader size a b c none none none = Src.filterHeader size a b c (some U32MAX) (some 0) (some U64MAX) := by
  simp [Src.filterHeader, U32MAX, U64MAX]

/-! ### the tag section (`tags.rs`) -/

theorem strs_size_fold (tag : List Bytes) (a : Nat) :
    tag.foldl (fun length s => ((length + 2) + s.length)) a = a + strsSize tag := by
  induction tag generalizing a with
  | nil => simp [strsSize]
  | cons s ss ih => simp only [List.foldl_cons, ih, strsSize]; omega

theorem tags_size_fold (ts : TagsRec) (a : Nat) :
    ts.foldl (fun length tag => tag.foldl (fun length s => ((length + 2) + s.length)) (length + 2)) a = a + tagsBodySize ts := by
  induction ts generalizing a with
  | nil => simp [tagsBodySize]
  | cons t ts ih => rw [List.foldl_cons, ih, strs_size_fold]; simp only [tagsBodySize, tagSize]; omega

/-- `Tags::output_size_needed` as the source adds it up today (an initial length, `+= …` per tag and per string) is the model's
`tagsSize` for every list of tags -/
theorem tags_size_from_source (ts : TagsRec) : Src.tagsSize ts = tagsSize ts := by
  unfold Src.tagsSize tagsSize
  rw [tags_size_fold]

/-- `Tags::from_parts` today: it refuses exactly when the model refuses (section longer than `u16::MAX`, buffer shorter than the
section), and otherwise the buffer starts with the source's four header bytes, the offset table beginning at the source's initial `p`,
the tags, and is untouched beyond the source's `length` -/
theorem tags_from_parts_from_source (ts : TagsRec) (buf : Bytes) :
    tagsFromParts ts buf =
      if Src.tagsRejects (Src.tagsSize ts) buf.length then .err
      else .ok (Src.tagsHeader (Src.tagsSize ts) ts.length ++ encOffsets (Src.tagsBodyStart ts.length) ts ++ encTagsBody ts
                ++ buf.drop (Src.tagsSize ts)) := by
  rw [tags_size_from_source]
  unfold tagsFromParts Src.tagsRejects Src.tagsHeader Src.tagsBodyStart encodeTags
  by_cases h1 : tagsSize ts > 65535 <;> by_cases h2 : buf.length < tagsSize ts <;> simp [h1, h2]

/-- the readers of a tag section with the offsets they use as parameters -/
def readStrsAt (a b c : Nat) (bs : Bytes) : Nat → Nat → Outcome (List Bytes)
  | 0, _ => .ok []
  | n + 1, off =>
    match rd16 bs off with
    | .ok len =>
      match slice bs (off + a) (off + b + len - (off + a)) with
      | .ok s =>
        match readStrsAt a b c bs n (off + c + len) with
        | .ok ss => .ok (s :: ss)
        | .err => .err
        | .panic => .panic
      | .err => .err
      | .panic => .panic
    | .err => .err
    | .panic => .panic

def readTagsFromAt (slot0 w first a b c : Nat) (bs : Bytes) (count : Nat) : Nat → Nat → Outcome TagsRec
  | 0, _ => .ok []
  | n + 1, i =>
    if i ≥ count then .ok []
    else match rd16 bs (slot0 + i * w) with
      | .ok off =>
        match rd16 bs off with
        | .ok cnt =>
          match readStrsAt a b c bs cnt (off + first) with
          | .ok t =>
            match readTagsFromAt slot0 w first a b c bs count n (i + 1) with
            | .ok ts => .ok (t :: ts)
            | .err => .err
            | .panic => .panic
          | .err => .err
          | .panic => .panic
        | .err => .err
        | .panic => .panic
      | .err => .err
      | .panic => .panic

/-- `Tags::delineate` and `tags.iter()` collected, reading where the list says -/
def tagsReadAt (rs : List Nat) (inp : Bytes) : Outcome (Bytes × Outcome TagsRec) :=
  match rs with
  | [least, lenAt, countAt, slot0, w, first, a, b, c] =>
    if inp.length < least then .err
    else match rd16 inp lenAt with
      | .ok len =>
        if inp.length < len then .err
        else
          let sec := inp.take len
          .ok (sec, match rd16 sec countAt with
            | .ok cnt => readTagsFromAt slot0 w first a b c sec cnt cnt 0
            | .err => .err
            | .panic => .panic)
      | .err => .err
      | .panic => .panic
  | _ => .panic

theorem readStrsAt_model (bs : Bytes) (n off : Nat) : readStrsAt 2 2 2 bs n off = readStrs bs n off := by
  induction n generalizing off with
  | zero => simp [readStrsAt, readStrs]
  | succ n ih =>
    have h (len : Nat) : off + 2 + len - (off + 2) = len := by omega
    simp only [readStrsAt, readStrs, ih, h]
    rfl

theorem readTagsFromAt_model (bs : Bytes) (count n i : Nat) :
    readTagsFromAt 4 2 2 2 2 2 bs count n i = readTagsFrom bs count n i := by
  induction n generalizing i with
  | zero => simp [readTagsFromAt, readTagsFrom]
  | succ n ih => simp only [readTagsFromAt, readTagsFrom, ih, readStrsAt_model]; rfl

/-- `Tags::delineate`, `Tags::count`, `TagsIter::next` and `TagsStringIter::next` read today where the model's `tagsDelineate` and
`tagsDecode` read: on every input, the same section and the same tags (or the same refusal / panic) -/
theorem tag_readers_from_source (inp : Bytes) :
    tagsReadAt Src.tagReads inp =
      (match tagsDelineate inp with
       | .ok sec => .ok (sec, tagsDecode sec)
       | .err => .err
       | .panic => .panic) := by
  unfold Src.tagReads tagsReadAt tagsDelineate tagsDecode tagsCount
  simp only [readTagsFromAt_model]
  by_cases h : inp.length < 2
  · simp [h]
  · simp only [h, if_false]
    cases rd16 inp 0 with
    | ok len => by_cases h2 : inp.length < len <;> simp [h2] <;> rfl
    | err => rfl
    | panic => rfl

/-! ### the writer of the tag section -/

theorem wr_mid (A Y v : Bytes) (pos : Nat) (h : pos = A.length) :
    Src.wr (A ++ Y) pos v = A ++ v ++ Y.drop v.length := by
  subst h
  simp [Src.wr, List.drop_append]

theorem strs_write (tag : List Bytes) (A Y : Bytes) (p : Nat) (hp : p = A.length) (hy : strsSize tag ≤ Y.length) :
    tag.foldl (fun (st : Bytes × Nat) s =>
          let (output, p) := st
          let output := Src.wr output p (le16 s.length)
          let p := p + 2
          let output := Src.wr output p s
          let p := p + s.length
          (output, p)) (A ++ Y, p) = (A ++ encStrs tag ++ Y.drop (strsSize tag), p + strsSize tag) := by
  induction tag generalizing A Y p with
  | nil => simp [encStrs, strsSize]
  | cons s ss ih =>
    simp only [List.foldl_cons, strsSize] at hy ⊢
    rw [wr_mid A Y _ p hp]
    rw [wr_mid (A ++ le16 s.length) (Y.drop (le16 s.length).length) s (p + 2) (by simp [hp])]
    have := ih (A ++ le16 s.length ++ s) (List.drop s.length (List.drop (le16 s.length).length Y)) (p + 2 + s.length)
      (by simp [hp]; omega) (by simp; omega)
    rw [this]
    simp [encStrs, encStr, List.append_assoc, List.drop_drop]
    omega

theorem tags_write_loop (todo : TagsRec) (Hd O X B Y : Bytes) (p n : Nat)
    (hO : O.length = 2 * n) (hH : Hd.length = 4) (hX : X.length = 2 * todo.length)
    (hp : p = 4 + O.length + X.length + B.length) (hy : tagsBodySize todo ≤ Y.length) :
    (todo.foldl (fun (st : Bytes × Nat × Nat) tag =>
      let (output, p, n) := st
      let output := Src.wr output (4 + 2 * n) (le16 p)
      let output := Src.wr output p (le16 tag.length)
      let p := p + 2
      let (output, p) := tag.foldl (fun (st : Bytes × Nat) s =>
          let (output, p) := st
          let output := Src.wr output p (le16 s.length)
          let p := p + 2
          let output := Src.wr output p s
          let p := p + s.length
          (output, p)) (output, p)
      (output, p, n + 1)) (Hd ++ O ++ X ++ B ++ Y, p, n)).1
      = Hd ++ O ++ encOffsets p todo ++ B ++ encTagsBody todo ++ Y.drop (tagsBodySize todo) := by
  induction todo generalizing O X B Y p n with
  | nil =>
    have : X = [] := List.eq_nil_of_length_eq_zero (by simpa using hX)
    simp [encOffsets, encTagsBody, tagsBodySize, this]
  | cons t rest ih =>
    match X, hX with
    | x0 :: x1 :: X', hX =>
      simp only [List.foldl_cons]
      have e1 : Hd ++ O ++ (x0 :: x1 :: X') ++ B ++ Y = (Hd ++ O) ++ ((x0 :: x1 :: X') ++ B ++ Y) := by simp
      rw [e1, wr_mid (Hd ++ O) _ (le16 p) (4 + 2 * n) (by simp [hH, hO])]
      have e2 : Hd ++ O ++ le16 p ++ List.drop (le16 p).length (x0 :: x1 :: X' ++ B ++ Y)
          = (Hd ++ (O ++ le16 p) ++ X' ++ B) ++ Y := by simp
      rw [e2, wr_mid _ Y (le16 t.length) p (by simp [hH] at hp ⊢; omega)]
      simp only [tagsBodySize, tagSize, List.length_cons] at hy hX
      rw [strs_write t _ _ (p + 2) (by simp [hH] at hp ⊢; omega) (by simp; omega)]
      have e3 : Hd ++ (O ++ le16 p) ++ X' ++ B ++ le16 t.length ++ encStrs t ++ List.drop (strsSize t) (List.drop (le16 t.length).length Y)
          = Hd ++ (O ++ le16 p) ++ X' ++ (B ++ encTag t) ++ List.drop (strsSize t) (List.drop (le16 t.length).length Y) := by
        simp [encTag]
      rw [e3]
      have := ih (O ++ le16 p) X' (B ++ encTag t) (List.drop (strsSize t) (List.drop (le16 t.length).length Y)) (p + 2 + strsSize t) (n + 1)
        (by simp [hO]; omega) (by omega) (by simp [encTag, encStrs_length] at hp ⊢; omega) (by simp; omega)
      rw [this]
      simp [encOffsets, encTagsBody, tagSize, List.append_assoc, List.drop_drop]
      rw [show p + 2 + strsSize t = p + (2 + strsSize t) by omega]
      simp [tagsBodySize, tagSize]

/-- **the two write loops of `Tags::from_parts`**, translated statement by statement on every run into random-access writes through the
moving `p` (`Src.tagsWrite`): on every list of tags and every buffer at least as long as the section they produce the model's
`encodeTags ts` followed by the untouched rest of the buffer -/
theorem tags_writer_from_source (ts : TagsRec) (buf : Bytes) (h : tagsSize ts ≤ buf.length) :
    Src.tagsWrite ts buf = encodeTags ts ++ buf.drop (tagsSize ts) := by
  unfold Src.tagsWrite
  simp only [tags_size_from_source]
  have e0 : Src.wr (Src.wr buf 0 (le16 (tagsSize ts))) 2 (le16 ts.length) =
      (le16 (tagsSize ts) ++ le16 ts.length) ++ [] ++ (buf.drop 4).take (2 * ts.length) ++ [] ++ buf.drop (4 + 2 * ts.length) := by
    have := wr_mid [] buf (le16 (tagsSize ts)) 0 rfl
    simp only [List.nil_append] at this
    rw [this, wr_mid (le16 (tagsSize ts)) _ (le16 ts.length) 2 (by simp)]
    simp [List.drop_drop]
    rw [show List.drop (4 + 2 * ts.length) buf = List.drop (2 * ts.length) (List.drop 4 buf) by simp [List.drop_drop],
      List.take_append_drop]
  rw [e0, tags_write_loop ts _ [] _ [] _ _ 0 (by simp) (by simp) (by simp [tagsSize] at h ⊢; omega) (by simp [tagsSize] at h ⊢; omega)
    (by simp [tagsSize] at h ⊢; omega)]
  simp [encodeTags, tagsSize, List.drop_drop, List.append_assoc]

/-- `Tags::from_parts` as a whole, as the source spells it today: rejections, then the writer -/
theorem tags_from_parts_whole_from_source (ts : TagsRec) (buf : Bytes) :
    tagsFromParts ts buf =
      if Src.tagsRejects (Src.tagsSize ts) buf.length then .err else .ok (Src.tagsWrite ts buf) := by
  rw [tags_size_from_source]
  unfold tagsFromParts Src.tagsRejects
  by_cases h1 : tagsSize ts > 65535
  · simp [h1]
  · by_cases h2 : buf.length < tagsSize ts
    · simp [h1, h2]
    · simp only [h1, h2, if_false, decide_false, Bool.or_false, Bool.false_eq_true]
      rw [tags_writer_from_source ts buf (by omega)]

/-! ### the array loops of `Filter::from_parts` -/

def flatW {α} (enc : α → Bytes) : List α → Bytes
  | [] => []
  | x :: xs => enc x ++ flatW enc xs

theorem seq_write {α} (enc : α → Bytes) (w : Nat) (xs : List α) (A Y : Bytes) (p : Nat)
    (hw : ∀ x ∈ xs, (enc x).length = w) (hp : p = A.length) :
    xs.foldl (fun (st : Bytes × Nat) x =>
        let (output, p) := st
        let output := Src.wr output (p) (enc x)
        let p := p + w
        (output, p)) (A ++ Y, p) = (A ++ flatW enc xs ++ Y.drop (w * xs.length), p + w * xs.length) := by
  induction xs generalizing A Y p with
  | nil => simp [flatW]
  | cons x xs ih =>
    have hx : (enc x).length = w := hw x (by simp)
    simp only [List.foldl_cons]
    rw [wr_mid A Y (enc x) p hp]
    rw [ih (A ++ enc x) (Y.drop (enc x).length) (p + w) (fun y hy => hw y (by simp [hy])) (by simp [hp, hx])]
    simp [flatW, hx, List.drop_drop, Nat.mul_add, List.append_assoc]
    constructor
    · congr 1; omega
    · omega

theorem flatW_id : ∀ xs : List Bytes, flatW (fun x => x) xs = flat32 xs
  | [] => rfl
  | x :: xs => by simp [flatW, flat32, flatW_id xs]
theorem flatW_kinds : ∀ ks : List Nat, flatW le16 ks = flatKinds ks
  | [] => rfl
  | k :: ks => by simp [flatW, flatKinds, flatW_kinds ks]


/-- **the array loops of `Filter::from_parts`**, translated on every run (`Src.filterArraysWrite`): on a buffer whose first 32 bytes are
the header, for all ids and authors of 32 bytes, all kinds and every tag section, they write exactly `flat32 ids ++ flat32 authors ++
flatKinds kinds ++ tagBytes` after the header and leave the rest of the buffer alone - the tail of the model's `encodeFilterWith` -/
theorem filter_arrays_from_source (ids authors : List Bytes) (kinds : List Nat) (tagBytes A Y : Bytes)
    (hi : ∀ x ∈ ids, x.length = 32) (ha : ∀ x ∈ authors, x.length = 32) (hA : A.length = 32) :
    Src.filterArraysWrite ids authors kinds tagBytes (A ++ Y) =
      A ++ flat32 ids ++ flat32 authors ++ flatKinds kinds ++ tagBytes ++
        Y.drop (32 * ids.length + 32 * authors.length + 2 * kinds.length + tagBytes.length) := by
  unfold Src.filterArraysWrite
  have h1 := seq_write (fun x : Bytes => x) 32 ids A Y 32 hi hA.symm
  simp only [] at h1
  simp only [h1]
  have h2 := seq_write (fun x : Bytes => x) 32 authors (A ++ flatW (fun x => x) ids) (Y.drop (32 * ids.length)) (32 + 32 * ids.length) ha
    (by rw [List.length_append, hA, flatW_id, flat32_length ids hi]; omega)
  simp only [] at h2
  simp only [h2]
  have h3 := seq_write le16 2 kinds (A ++ flatW (fun x => x) ids ++ flatW (fun x => x) authors) ((Y.drop (32 * ids.length)).drop (32 * authors.length))
    (32 + 32 * ids.length + 32 * authors.length) (fun _ _ => rfl)
    (by rw [List.length_append, List.length_append, hA, flatW_id, flatW_id, flat32_length ids hi, flat32_length authors ha]; omega)
  simp only [h3]
  rw [wr_mid _ _ tagBytes _ (by
    rw [List.length_append, List.length_append, List.length_append, hA, flatW_id, flatW_id, flatW_kinds, flat32_length ids hi,
      flat32_length authors ha, flatKinds_length]; omega)]
  simp only [flatW_id, flatW_kinds, List.drop_drop]

/-! ### what `from_parts` refuses -/

/-- `Event::from_parts` refuses exactly what the source's tests refuse today (in whatever order: every refusal is an error) -/
theorem event_rejections_from_source (id pk sig : Bytes) (kind t : Nat) (tagBytes content buf : Bytes) :
    eventFromParts id pk sig kind t tagBytes content buf =
      if Src.eventRejects (Src.eventSize tagBytes.length content.length) buf.length then .err
      else .ok (Src.encodeEventWith id pk sig kind t tagBytes content ++ buf.drop (Src.eventSize tagBytes.length content.length)) := by
  rw [event_writer_from_source, event_size_from_source]
  unfold eventFromParts Src.eventRejects
  by_cases h1 : eventSize tagBytes.length content.length > 4294967295 <;>
    by_cases h2 : buf.length < eventSize tagBytes.length content.length <;> simp [h1, h2]

/-- `Filter::from_parts` likewise: the three counts against `u16::MAX`, the size against `u32::MAX`, the buffer against the size -/
theorem filter_rejections_from_source (ids authors : List Bytes) (kinds : List Nat) (tagBytes : Bytes) (since «until» limit : Nat) (buf : Bytes) :
    filterFromParts ids authors kinds tagBytes since «until» limit buf =
      if Src.filterRejects ids.length authors.length kinds.length (filterSize ids.length authors.length kinds.length tagBytes.length) buf.length
      then .err
      else .ok (encodeFilterWith ids authors kinds tagBytes since «until» limit ++
                buf.drop (filterSize ids.length authors.length kinds.length tagBytes.length)) := by
  unfold filterFromParts Src.filterRejects
  by_cases h0 : ids.length > 65535 <;> by_cases h0' : authors.length > 65535 <;> by_cases h0'' : kinds.length > 65535 <;>
    by_cases h1 : filterSize ids.length authors.length kinds.length tagBytes.length > 4294967295 <;>
    by_cases h2 : buf.length < filterSize ids.length authors.length kinds.length tagBytes.length <;> simp [h0, h0', h0'', h1, h2]

end Pocket
