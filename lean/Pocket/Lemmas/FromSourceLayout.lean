import Pocket.Src.Layout
import Pocket.Model.Event
import Pocket.Model.Filter
/- What the source says NOW about the binary layout of an event (`Pocket/Src/Layout.lean`: the contiguous writes of
`Event::from_parts`, `output_size_needed`, and the offsets the accessors read at, translated from event.rs on every check
run) against the model's encoder and decoder, which the round-trip, canonical-form and read-back theorems are about.
(`to_ne_bytes` is read as little-endian: the host's byte order, see the trusted base.) -/
namespace Pocket

theorem event_size_from_source (a b : Nat) : Src.eventSize a b = eventSize a b := rfl

/-- the bytes `Event::from_parts` writes, statement by statement, are the model's encoding -/
theorem event_writer_from_source (id pk sig : Bytes) (kind t : Nat) (tagBytes content : Bytes) :
    Src.encodeEventWith id pk sig kind t tagBytes content = encodeEventWith id pk sig kind t tagBytes content := by
  simp [Src.encodeEventWith, encodeEventWith, Src.eventSize, eventSize, List.append_assoc]

/-- the model's decoder with the places it reads at as parameters:
`[kind, created_at, id offset, id length, pubkey offset, pubkey length, sig offset, sig length, tags, tag-section length (as read
by content), width of the content length]` -/
def eventDecodeAt (r : List Nat) (b : Bytes) : Outcome EventRec :=
  match r with
  | [k, t, io, il, po, pl, so, sl, g, g2, w] =>
    (match rd16 b k, rd64 b t, slice b io il, slice b po pl, slice b so sl with
    | .ok kind, .ok t, .ok id, .ok pk, .ok sig =>
      if b.length < g then .panic
      else match tagsDelineate (b.drop g) with
        | .ok tb =>
          match tagsDecode tb with
          | .ok tags =>
            match rd16 b g2 with
            | .ok tl =>
              match rd32 b (g2 + tl) with
              | .ok cl =>
                match slice b (g2 + tl + w) cl with
                | .ok content => .ok ⟨id, pk, sig, kind, t, tags, content⟩
                | _ => .panic
              | _ => .panic
            | _ => .panic
          | .err => .err
          | .panic => .panic
        | .err => .err
        | .panic => .panic
    | _, _, _, _, _ => .panic)
  | _ => .panic

/-- every accessor of `Event` reads where the model's decoder reads -/
theorem event_readers_from_source (b : Bytes) : eventDecodeAt Src.evReads b = eventDecode b := by
  unfold Src.evReads eventDecodeAt eventDecode
  rfl

/-- the fixed header of a binary filter as `Filter::from_parts` writes it today is the head of the model's encoding; an absent
limit / since / until is written as `u32::MAX` / `0` / `u64::MAX` - the values the model (and the JSON parser) take for "absent" -/
theorem filter_header_from_source (ids authors : List Bytes) (kinds : List Nat) (tagBytes : Bytes) (since «until» limit : Nat) :
    encodeFilterWith ids authors kinds tagBytes since «until» limit =
      Src.filterHeader (filterSize ids.length authors.length kinds.length tagBytes.length) ids.length authors.length kinds.length
        (some limit) (some since) (some «until») ++ (flat32 ids ++ flat32 authors ++ flatKinds kinds ++ tagBytes) := by
  simp [encodeFilterWith, Src.filterHeader, List.append_assoc]

theorem filter_defaults_from_source (size a b c : Nat) :
    Src.filterHeader size a b c none none none = Src.filterHeader size a b c (some U32MAX) (some 0) (some U64MAX) := by
  simp [Src.filterHeader, U32MAX, U64MAX]

end Pocket
