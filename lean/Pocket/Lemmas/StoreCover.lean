import Pocket.Lemmas.StoreAddr
/- what deletion markers cover is not retrievable (C11) -/
namespace Pocket

/-- markers and the index agree: an id that is marked is not indexed, and every indexed event is
newer than the deletion time recorded for its address -/
structure Covered (live : List SEv) (di : List Bytes) (da : List (AddrKey × Nat)) : Prop where
  ids : ∀ id ∈ di, id ∉ live.map (·.e.id)
  addrs : ∀ x ∈ live, ∀ a t, addrOf x.e = some a → delAddrGet da a = some t → t < x.e.createdAt

theorem Covered_sublist (live live' : List SEv) (di : List Bytes) (da : List (AddrKey × Nat))
    (h : Covered live di da) (hs : live'.Sublist live) : Covered live' di da :=
  ⟨fun id hid hm => h.ids id hid ((hs.map _).subset hm),
   fun x hx a t ha hm => h.addrs x (hs.subset hx) a t ha hm⟩

/-- an address of a replaceable or parameterized kind is held exactly by the events the removal
scans select -/
theorem removeAt_removes (c t : List SEv) (k : Nat) (a d : Bytes) (u : Nat) (x : SEv)
    (hx : x ∈ removeAt c t k a (normD k d) u) (hxc : x ∈ c)
    (hadr : addrOf x.e = some (k, a, normD k d)) : u < x.e.createdAt := by
  unfold removeAt at hx
  by_cases hr : isReplaceable k = true
  · simp only [hr, if_true, removeReplaceable, List.mem_filter, Bool.not_eq_true', List.any_eq_false,
      beq_iff_eq, Bool.and_eq_true, decide_eq_true_eq, and_imp] at hx
    -- x is a holder; had it been old enough it would have been a victim
    have hk : x.e.pubkey = a ∧ x.e.kind = k := by
      unfold addrOf at hadr
      by_cases hxr : isReplaceable x.e.kind = true
      · simp only [hxr, if_true, Option.some.injEq, Prod.mk.injEq] at hadr; exact ⟨hadr.2.1, hadr.1⟩
      · simp only [hxr, Bool.false_eq_true, if_false] at hadr
        by_cases hxp : isParamReplaceable x.e.kind = true
        · simp only [hxp, if_true] at hadr
          cases hd : getValue x.e.tags KEY_D with
          | none => rw [hd] at hadr; cases hadr
          | some d' =>
            rw [hd] at hadr
            simp only [Option.map_some, Option.some.injEq, Prod.mk.injEq] at hadr
            have := repl_not_param k hr
            rw [← hadr.1] at this; rw [this] at hxp; cases hxp
        · simp [hxp] at hadr
    by_cases hle : x.e.createdAt ≤ u
    · exact absurd rfl (hx.2 x hxc hk.1 hk.2 hle)
    · omega
  · simp only [hr, Bool.false_eq_true, if_false] at hx
    by_cases hp : isParamReplaceable k = true
    · simp only [hp, if_true, removeParam, List.mem_filter, Bool.not_eq_true', List.any_eq_false,
        beq_iff_eq, Bool.and_eq_true, decide_eq_true_eq, and_imp] at hx
      have hnd : normD k d = d := by simp [normD, hr]
      rw [hnd] at hadr hx
      have hh := (param_holder_iff x.e k a d hp).mpr hadr
      by_cases hle : x.e.createdAt ≤ u
      · exact absurd rfl (hx.2 x hxc hh hle)
      · omega
    · -- neither class: no event has such an address
      exfalso
      unfold addrOf at hadr
      by_cases hxr : isReplaceable x.e.kind = true
      · simp only [hxr, if_true, Option.some.injEq, Prod.mk.injEq] at hadr
        rw [hadr.1] at hxr; exact hr hxr
      · simp only [hxr, Bool.false_eq_true, if_false] at hadr
        by_cases hxp : isParamReplaceable x.e.kind = true
        · simp only [hxp, if_true] at hadr
          cases hd : getValue x.e.tags KEY_D with
          | none => rw [hd] at hadr; cases hadr
          | some d' =>
            rw [hd] at hadr
            simp only [Option.map_some, Option.some.injEq, Prod.mk.injEq] at hadr
            rw [hadr.1] at hxp; exact hp hxp
        · simp [hxp] at hadr

/-- one tag of a deletion request keeps the agreement; `extra` is the request itself (indexed in the
transaction, not yet committed, without an address) -/
theorem delTag_covered (c : List SEv) (req : EventRec) (hreq : addrOf req = none) (tag : List Bytes)
    (st st' : DelSt) (h : delTag c req tag st = .ok st')
    (hsub : ∀ x ∈ st.live, x ∈ c ∨ x.e = req)
    (hc : Covered st.live st.delIds st.delAddrs) : Covered st'.live st'.delIds st'.delAddrs := by
  unfold delTag at h
  repeat' split at h
  all_goals first
    | (simp only [DelOut.ok.injEq] at h; subst h; exact hc)
    | skip
  · rename_i id _
    unfold delE at h
    by_cases hid : (id == req.id) = true
    · rw [if_pos hid] at h; simp only [DelOut.ok.injEq] at h; subst h; exact hc
    · rw [if_neg hid] at h
      have hne : id ≠ req.id := by simpa using hid
      split at h
      · split at h
        · cases h
        · simp only [DelOut.ok.injEq] at h; subst h
          refine ⟨?_, fun x hx => hc.addrs x ((removeId_sublist _ _).subset hx)⟩
          intro i hi hm
          rcases mem_addDelId _ _ _ hi with hi | rfl
          · exact hc.ids i hi (((removeId_sublist _ _).map _).subset hm)
          · obtain ⟨y, hy, hyid⟩ := List.mem_map.mp hm
            simp only [removeId, List.mem_filter, bne_iff_ne, ne_eq] at hy
            exact hy.2 hyid
      · rename_i hfind
        simp only [DelOut.ok.injEq] at h; subst h
        refine ⟨?_, hc.addrs⟩
        intro i hi hm
        rcases mem_addDelId _ _ _ hi with hi | rfl
        · exact hc.ids i hi hm
        · obtain ⟨y, hy, hyid⟩ := List.mem_map.mp hm
          rcases hsub y hy with hyc | hyr
          · exact findById_none_not_mem _ _ hfind (List.mem_map.mpr ⟨y, hyc, hyid⟩)
          · rw [hyr] at hyid; exact hne hyid.symm
  · rename_i kind author d0 _
    unfold delA at h
    split at h
    · cases h
    · split at h
      · cases h
      · simp only [DelOut.ok.injEq] at h; subst h
        have hsl := removeAt_sublist c st.live kind author (normD kind d0) req.createdAt
        refine ⟨fun i hi hm => hc.ids i hi ((hsl.map _).subset hm), ?_⟩
        intro x hx a t ha hm
        rw [delAddrGet_put] at hm
        have hxl := hsl.subset hx
        by_cases hkey : a = (kind, author, normD kind d0)
        · rw [if_pos hkey] at hm
          simp only [Option.some.injEq] at hm
          subst hkey
          have hxc : x ∈ c := by
            rcases hsub x hxl with h' | h'
            · exact h'
            · rw [h'] at ha; rw [hreq] at ha; cases ha
          have h1 := removeAt_removes c st.live kind author d0 req.createdAt x hx hxc ha
          -- and newer than the previous marker, by the agreement before
          rw [← hm]
          unfold laterTime
          cases hprev : delAddrGet st.delAddrs (kind, author, normD kind d0) with
          | none => simp only; exact h1
          | some p =>
            have h2 := hc.addrs x hxl _ p ha hprev
            dsimp only; split <;> omega
        · rw [if_neg hkey] at hm
          exact hc.addrs x hxl a t ha hm

theorem handleDeletion_covered (c : List SEv) (req : EventRec) (hreq : addrOf req = none) (tags : TagsRec)
    (st st' : DelSt) (h : handleDeletion c req tags st = .ok st')
    (hsub : ∀ x ∈ st.live, x ∈ c ∨ x.e = req)
    (hc : Covered st.live st.delIds st.delAddrs) : Covered st'.live st'.delIds st'.delAddrs := by
  induction tags generalizing st with
  | nil => simp [handleDeletion] at h; subst h; exact hc
  | cons tag rest ih =>
    unfold handleDeletion at h
    split at h
    · rename_i st1 h1
      have hs1 := delTag_sublist _ _ _ _ _ h1
      exact ih _ h (fun x hx => hsub x (hs1.subset hx)) (delTag_covered c req hreq tag st st1 h1 hsub hc)
    · cases h
    · cases h

/-- an event that is not refused is not covered by any marker -/
theorem refusal_none_uncovered (db : Db) (e : EventRec) (h : refusal db e = none) :
    e.id ∉ db.delIds ∧ ∀ a t, addrOf e = some a → delAddrGet db.delAddrs a = some t → t < e.createdAt := by
  unfold refusal at h
  split at h
  · cases h
  · split at h
    · cases h
    · rename_i hdel
      split at h
      · cases h
      · rename_i hda
        refine ⟨by simpa using hdel, ?_⟩
        intro a t ha hm
        unfold delByAddr at hda
        rw [addrMarker_eq, ha] at hda
        simp only [Option.bind_some, hm, Bool.not_eq_true, decide_eq_false_iff_not] at hda
        omega

/-- the agreement between markers and index holds after every `store_event` -/
theorem Covered_storeEvent (s : Store) (e : EventRec)
    (hc : Covered s.db.live s.db.delIds s.db.delAddrs) :
    Covered (storeEvent s e).2.db.live (storeEvent s e).2.db.delIds (storeEvent s e).2.db.delAddrs := by
  have txn_cov : refusal s.db e = none → Covered (txnLive s e) s.db.delIds s.db.delAddrs := by
    intro hr
    obtain ⟨hid, had⟩ := refusal_none_uncovered s.db e hr
    have hpre := Covered_sublist _ _ _ _ hc (preRemove_sublist s.db.live e)
    unfold txnLive
    split
    · exact hpre
    · refine ⟨?_, ?_⟩
      · intro i hi hm
        rw [List.map_append, List.mem_append] at hm
        rcases hm with hm | hm
        · exact hpre.ids i hi hm
        · simp only [List.map_cons, List.map_nil, List.mem_singleton] at hm
          subst hm; exact hid hi
      · intro x hx a t ha hm
        rcases List.mem_append.mp hx with hx | hx
        · exact hpre.addrs x hx a t ha hm
        · simp only [List.mem_singleton] at hx; subst hx; exact had a t ha hm
  rcases storeEvent_cases s e with ⟨r, _, _, h⟩ | h | ⟨_, hr, h⟩ | ⟨h5, hr, st, hd, h⟩ | h | h <;> rw [h]
  · exact hc
  · exact hc
  · exact txn_cov hr
  · have hsub : ∀ x ∈ txnLive s e, x ∈ s.db.live ∨ x.e = e := by
      intro x hx
      have := (txnLive_sublist s e).subset hx
      rcases List.mem_append.mp this with h' | h'
      · exact Or.inl h'
      · simp only [List.mem_singleton] at h'; subst h'; exact Or.inr rfl
    exact handleDeletion_covered s.db.live e (kind5_no_addr e h5) e.tags _ st hd hsub (txn_cov hr)
  · exact hc
  · exact hc

theorem Covered_step (s : Store) (op : Op) (hc : Covered s.db.live s.db.delIds s.db.delAddrs) :
    Covered (step s op).db.live (step s op).db.delIds (step s op).db.delAddrs := by
  cases op with
  | store e => exact Covered_storeEvent s e hc
  | remove id => exact Covered_sublist _ _ _ _ hc (removeId_sublist _ _)
  | vanish pk => exact Covered_sublist _ _ _ _ hc (vanish_sublist s pk)
  | reopen => exact hc
  | rebuild =>
    have hp : ((rebuild s).db.live.map (·.e)).Perm (s.db.live.map (·.e)) := by
      unfold rebuild; dsimp only; rw [relog_events]; exact (sortById_perm s.db.live).map _
    refine ⟨?_, ?_⟩
    · intro i hi hm
      obtain ⟨y, hy, hyid⟩ := List.mem_map.mp hm
      obtain ⟨x, hx, hxe⟩ := List.mem_map.mp (hp.subset (List.mem_map.mpr ⟨y, hy, rfl⟩))
      exact hc.ids i hi (List.mem_map.mpr ⟨x, hx, by rw [hxe]; exact hyid⟩)
    · intro y hy a t ha hm
      obtain ⟨x, hx, hxe⟩ := List.mem_map.mp (hp.subset (List.mem_map.mpr ⟨y, hy, rfl⟩))
      have := hc.addrs x hx a t (by rw [hxe]; exact ha) hm
      rw [hxe] at this; exact this

theorem Covered_run (s : Store) (ops : List Op) (hc : Covered s.db.live s.db.delIds s.db.delAddrs) :
    Covered (run s ops).db.live (run s ops).db.delIds (run s ops).db.delAddrs := by
  induction ops generalizing s with
  | nil => exact hc
  | cons op ops ih => exact ih _ (Covered_step s op hc)

end Pocket
