import Pocket.Src.Consts
import Pocket.Model.Escape
import Pocket.Model.JsonParse
import Pocket.Model.Filter
import Pocket.Model.Store
/- What the source says NOW (`Pocket/Src/*.lean`, regenerated from /repo by `lib/srcfacts.py` on every check run)
against what the model says.  A change of any of these in the source breaks the corresponding theorem. -/
namespace Pocket

/-- the nesting bound of `burn_value` and the size of the table of tag-member positions -/
theorem parser_bounds_from_source : Src.c_json_parse_MAX_BURN_DEPTH = [MAX_BURN_DEPTH] ∧ Src.startTagsLen = 52 := by decide

/-- the escaper's named characters: what the model emits for each -/
theorem escape_constants_from_source :
    (∀ q ∈ Src.c_json_escape_BACKSLASH, ∀ c ∈ Src.c_json_escape_BACKSPACE, escapePiece c = some [q, 98]) ∧
    (∀ q ∈ Src.c_json_escape_BACKSLASH, ∀ c ∈ Src.c_json_escape_TAB, escapePiece c = some [q, 116]) ∧
    (∀ q ∈ Src.c_json_escape_BACKSLASH, ∀ c ∈ Src.c_json_escape_LINEFEED, escapePiece c = some [q, 110]) ∧
    (∀ q ∈ Src.c_json_escape_BACKSLASH, ∀ c ∈ Src.c_json_escape_FORMFEED, escapePiece c = some [q, 102]) ∧
    (∀ q ∈ Src.c_json_escape_BACKSLASH, ∀ c ∈ Src.c_json_escape_CR, escapePiece c = some [q, 114]) ∧
    (∀ q ∈ Src.c_json_escape_BACKSLASH, ∀ c ∈ Src.c_json_escape_QUOTE, escapePiece c = some [q, c]) ∧
    (∀ q ∈ Src.c_json_escape_BACKSLASH, escapePiece q = some [q, q]) := by decide

/-- `encode_utf8`'s length classes and tag bits: at each class boundary the model's encoder changes length, and the
first code point of each class is written with exactly the source's tag bytes -/
theorem utf8_constants_from_source :
    (∀ m ∈ Src.c_utf8_MAX_ONE_B, (utf8Bytes (m - 1)).length = 1 ∧ ∀ t ∈ Src.c_utf8_TAG_TWO_B, ∀ c ∈ Src.c_utf8_TAG_CONT, utf8Bytes m = [t + 2, c]) ∧
    (∀ m ∈ Src.c_utf8_MAX_TWO_B, (utf8Bytes (m - 1)).length = 2 ∧ ∀ t ∈ Src.c_utf8_TAG_THREE_B, ∀ c ∈ Src.c_utf8_TAG_CONT, utf8Bytes m = [t, c + 32, c]) ∧
    (∀ m ∈ Src.c_utf8_MAX_THREE_B, (utf8Bytes (m - 1)).length = 3 ∧ ∀ t ∈ Src.c_utf8_TAG_FOUR_B, ∀ c ∈ Src.c_utf8_TAG_CONT, utf8Bytes m = [t, c + 16, c, c]) ∧
    Src.c_utf8_CONT_MASK = [63] := by decide

/-- the binary filter's header layout: the model's size formula and decoder offsets -/
theorem filter_layout_from_source :
    (∀ a ∈ Src.c_filter_ARRAYS_OFFSET, filterSize 0 0 0 0 = a) ∧
    (∀ s ∈ Src.c_filter_ID_SIZE, filterSize 1 0 0 0 = filterSize 0 0 0 0 + s) ∧
    (∀ s ∈ Src.c_filter_PUBKEY_SIZE, filterSize 0 1 0 0 = filterSize 0 0 0 0 + s) ∧
    (∀ s ∈ Src.c_filter_KIND_SIZE, filterSize 0 0 1 0 = filterSize 0 0 0 0 + s) ∧
    Src.c_filter_NUM_IDS_OFFSET = [4] ∧ Src.c_filter_NUM_AUTHORS_OFFSET = [6] ∧ Src.c_filter_NUM_KINDS_OFFSET = [8] ∧
    Src.c_filter_LIMIT_OFFSET = [12] ∧ Src.c_filter_SINCE_OFFSET = [16] ∧ Src.c_filter_UNTIL_OFFSET = [24] := by decide

/-- every `PADLEN` of the key builders is the length the model pads (or cuts) tag values and identifiers to -/
theorem index_padding_from_source (v : Bytes) : ∀ p ∈ Src.c_lmdb_PADLEN, (pad182 v).length = p := by
  have hl : (pad182 v).length = 182 := by unfold pad182; split <;> simp <;> omega
  have : ∀ p ∈ Src.c_lmdb_PADLEN, p = 182 := by decide
  intro p hp
  rw [hl, this p hp]

/-- both build configurations' growth chunk satisfy what the event-map theorems assume of it -/
theorem map_chunks_from_source :
    ∀ c ∈ Src.c_event_store_EVENT_MAP_CHUNK_debug ++ Src.c_event_store_EVENT_MAP_CHUNK_release, c % 8 = 0 ∧ 8 ≤ c := by decide

end Pocket
