import Pocket.Src.Preds
import Pocket.Model.Utf8
import Pocket.Model.ParseFilter
import Pocket.Model.Store
/- What the source says NOW (`Pocket/Src/Preds.lean`, regenerated from /repo by `lib/srcfacts.py` on every check run)
against what the model says: the set of characters `json_escape` copies unescaped, and the letter test that makes a filter
member a tag constraint.  Proved by arithmetic: any equivalent respelling in the source still proves. -/
namespace Pocket

theorem safe_char_from_source (c : Nat) : Src.isSafeChar c = isSafeChar c := by
  rw [Bool.eq_iff_iff]; simp [Src.isSafeChar, isSafeChar] <;> omega

theorem tag_member_letter_from_source (b : Nat) : Src.tagMemberLetter b = isLetter b := by
  rw [Bool.eq_iff_iff]; simp [Src.tagMemberLetter, isLetter] <;> omega

/-- the scraping allowance, as `find_events` spells it today (`maxtime = until.min(now)`, `allow = allow_scraping || limit <= … ||
maxtime.saturating_sub(since) < …`), is the model's `scrapeAllowed` -/
theorem scrape_gate_from_source (f : FilterRec) (allow : Bool) (allowLimit allowSecs now : Nat) :
    Src.scrapeAllow allow f.limit allowLimit allowSecs f.since f.until now = scrapeAllowed f allow allowLimit allowSecs now := by
  unfold Src.scrapeAllow scrapeAllowed
  have : min f.until now = (if f.until < now then f.until else now) := by
    by_cases h : f.until < now
    · simp [h]; omega
    · simp [h]; omega
  rw [this]

end Pocket
