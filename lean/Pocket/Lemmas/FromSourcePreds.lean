import Pocket.Src.Preds
import Pocket.Model.Utf8
import Pocket.Model.ParseFilter
/- What the source says NOW (`Pocket/Src/Preds.lean`, regenerated from /repo by `lib/srcfacts.py` on every check run)
against what the model says: the set of characters `json_escape` copies unescaped, and the letter test that makes a filter
member a tag constraint.  Proved by arithmetic: any equivalent respelling in the source still proves. -/
namespace Pocket

theorem safe_char_from_source (c : Nat) : Src.isSafeChar c = isSafeChar c := by
  rw [Bool.eq_iff_iff]; simp [Src.isSafeChar, isSafeChar] <;> omega

theorem tag_member_letter_from_source (b : Nat) : Src.tagMemberLetter b = isLetter b := by
  rw [Bool.eq_iff_iff]; simp [Src.tagMemberLetter, isLetter] <;> omega

end Pocket
