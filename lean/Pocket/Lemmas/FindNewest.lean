import Pocket.Lemmas.FindComplete
/- `find_events` under a *binding* limit (C05): whatever is left out is no newer than anything
returned, and exactly `limit` events are returned.  The plans stop a range after `limit` accepted
events and move `since` up; the invariant `Lim` says that whenever `since` has moved there are
already `limit` distinct collected events at least that new. -/
namespace Pocket

/-! ### index ranges are duplicate-free and newest first -/

theorem insertSorted_sorted (x : SEv) (l : List SEv)
    (h : l.Pairwise (fun a b => a.e.createdAt ≥ b.e.createdAt)) :
    (insertSorted x l).Pairwise (fun a b => a.e.createdAt ≥ b.e.createdAt) := by
  induction l with
  | nil => simp [insertSorted]
  | cons a l ih =>
    rw [List.pairwise_cons] at h
    unfold insertSorted
    split
    · rename_i hb
      rw [List.pairwise_cons]
      refine ⟨?_, List.pairwise_cons.mpr h⟩
      have hxa : x.e.createdAt ≥ a.e.createdAt := by
        unfold scanBefore at hb
        simp only [Bool.or_eq_true, decide_eq_true_eq, Bool.and_eq_true, beq_iff_eq] at hb
        omega
      intro y hy
      rcases List.mem_cons.mp hy with rfl | hy
      · exact hxa
      · have := h.1 y hy; omega
    · rename_i hb
      have hax : a.e.createdAt ≥ x.e.createdAt := by
        unfold scanBefore at hb
        simp only [Bool.or_eq_true, decide_eq_true_eq, Bool.and_eq_true, beq_iff_eq, not_or] at hb
        omega
      rw [List.pairwise_cons]
      refine ⟨?_, ih h.2⟩
      intro y hy
      rcases (insertSorted_mem x y l).mp hy with rfl | hy
      · exact hax
      · exact h.1 y hy

theorem sortScan_sorted (l : List SEv) :
    (sortScan l).Pairwise (fun a b => a.e.createdAt ≥ b.e.createdAt) := by
  unfold sortScan
  induction l with
  | nil => simp
  | cons a l ih => exact insertSorted_sorted a _ ih

theorem insertSorted_nodup (x : SEv) (l : List SEv) (h : l.Nodup) (hx : x ∉ l) :
    (insertSorted x l).Nodup := by
  induction l with
  | nil => simp [insertSorted]
  | cons a l ih =>
    rw [List.nodup_cons] at h
    unfold insertSorted
    split
    · exact List.nodup_cons.mpr ⟨hx, List.nodup_cons.mpr h⟩
    · rw [List.nodup_cons]
      refine ⟨?_, ih h.2 (fun hh => hx (by simp [hh]))⟩
      intro hy
      rcases (insertSorted_mem x a l).mp hy with rfl | hy
      · exact hx (by simp)
      · exact h.1 hy

theorem sortScan_nodup (l : List SEv) (h : l.Nodup) : (sortScan l).Nodup := by
  unfold sortScan
  induction l with
  | nil => simp
  | cons a l ih =>
    rw [List.nodup_cons] at h
    refine insertSorted_nodup a _ (ih h.2) ?_
    intro hy
    exact h.1 ((sortScan_mem l a).mp (by unfold sortScan; exact hy))

theorem nodup_of_ids (live : List SEv) (hids : (live.map (·.e.id)).Nodup) : live.Nodup := by
  rw [List.Nodup, List.pairwise_map] at hids
  exact hids.imp (fun h hab => h (by rw [hab]))

theorem scan_nodup (live : List SEv) (hids : (live.map (·.e.id)).Nodup) (p : EventRec → Bool) (a b : Nat) :
    (scan live p a b).Nodup := by
  unfold scan
  exact sortScan_nodup _ ((nodup_of_ids live hids).filter _)

theorem scan_sorted (live : List SEv) (p : EventRec → Bool) (a b : Nat) :
    (scan live p a b).Pairwise (fun a b => a.e.createdAt ≥ b.e.createdAt) := by
  unfold scan; exact sortScan_sorted _

/-! ### the cut -/

/-- `limit` distinct collected events, each at least as new as time `t` -/
def Cut (f : FilterRec) (out : List SEv) (t : Nat) : Prop :=
  ∃ S : List SEv, S.Nodup ∧ f.limit ≤ S.length ∧ ∀ s ∈ S, s ∈ out ∧ t ≤ s.e.createdAt

theorem Cut_mono (f : FilterRec) (out out' : List SEv) (t t' : Nat) (h : ∀ y ∈ out, y ∈ out')
    (ht : t' ≤ t) : Cut f out t → Cut f out' t' := by
  rintro ⟨S, h1, h2, h3⟩
  exact ⟨S, h1, h2, fun s hs => ⟨h s (h3 s hs).1, by have := (h3 s hs).2; omega⟩⟩

/-- `since` either never moved, or `limit` collected events are at least that new -/
def Lim (f : FilterRec) (st : FindState) : Prop := st.since = f.since ∨ Cut f st.out st.since

/-- one index range, any limit -/
theorem consumeRange_gen (live : List SEv) (f : FilterRec) (scr : EventRec → Screen)
    (hids : (live.map (·.e.id)).Nodup) (stop : Bool) (l : List SEv) (seen : List SEv)
    (hl : ∀ y ∈ l, y ∈ live)
    (hsorted : l.Pairwise (fun a b => a.e.createdAt ≥ b.e.createdAt))
    (hnd : (seen ++ l).Nodup)
    (st : FindState) (hg : Good live f scr st)
    (hseen : ∀ s ∈ seen, s ∈ st.out ∧ ∀ y ∈ l, y.e.createdAt ≤ s.e.createdAt)
    (hsince : ∀ y ∈ l, st.since ≤ y.e.createdAt)
    (hlim : Lim f st) :
    Lim f (consumeRange f scr stop l seen.length st) ∧
    (∀ y ∈ st.out, y ∈ (consumeRange f scr stop l seen.length st).out) ∧
    (∀ x ∈ l, eventMatches f x.e = true → scr x.e = .match → (stop = true → ∀ y ∈ l, y = x) →
        x ∈ (consumeRange f scr stop l seen.length st).out ∨
        Cut f (consumeRange f scr stop l seen.length st).out x.e.createdAt) := by
  induction l generalizing seen st with
  | nil => exact ⟨hlim, fun y hy => hy, fun x hx => by cases hx⟩
  | cons a rest ih =>
    have ha := hl a (by simp)
    have hrest : ∀ y ∈ rest, y ∈ live := fun y hy => hl y (by simp [hy])
    obtain ⟨g1, g2⟩ := Good_accept_insert live f scr st a ha hg
    obtain ⟨o1, o2, _, _⟩ := accept_spec f scr a st
    have hnlt : ¬ a.e.createdAt < st.since := by have := hsince a (by simp); omega
    rw [List.pairwise_cons] at hsorted
    have hnd2 : ((seen ++ [a]) ++ rest).Nodup := by simpa using hnd
    have hnd3 : (seen ++ rest).Nodup :=
      hnd.sublist (List.Sublist.append_left (List.sublist_cons_self a rest) seen)
    unfold consumeRange
    rw [if_neg hnlt]
    dsimp only
    by_cases hok : (accept f scr a st).1 = true
    · rw [if_pos hok]
      have g := g2 hok
      have hain : a ∈ insertOut (accept f scr a st).2.out a :=
        insertOut_self live _ a hids ha (fun y hy => (g1.sound y hy).1)
      have hmono : ∀ y ∈ st.out, y ∈ insertOut (accept f scr a st).2.out a :=
        fun y hy => insertOut_mono _ _ _ (by rw [o1]; exact hy)
      -- the events of this range accepted so far, `a` included
      have hseen' : ∀ s ∈ seen ++ [a], s ∈ insertOut (accept f scr a st).2.out a ∧
          ∀ y ∈ rest, y.e.createdAt ≤ s.e.createdAt := by
        intro s hs
        rcases List.mem_append.mp hs with hs | hs
        · exact ⟨hmono s (hseen s hs).1, fun y hy => (hseen s hs).2 y (by simp [hy])⟩
        · simp only [List.mem_singleton] at hs; subst hs
          exact ⟨hain, fun y hy => hsorted.1 y hy⟩
      have hlen : seen.length + 1 = (seen ++ [a]).length := by simp
      by_cases hlimit : seen.length + 1 ≥ f.limit
      · rw [if_pos hlimit]
        -- the limit is reached: `limit` distinct events of this range, all at least as new as `a`
        have hcut : Cut f (insertOut (accept f scr a st).2.out a) a.e.createdAt := by
          refine ⟨seen ++ [a], ?_, by rw [← hlen]; exact hlimit, ?_⟩
          · exact hnd2.sublist (List.sublist_append_left _ _)
          · intro s hs
            refine ⟨(hseen' s hs).1, ?_⟩
            rcases List.mem_append.mp hs with hs' | hs'
            · exact (hseen s hs').2 a (by simp)
            · simp only [List.mem_singleton] at hs'; subst hs'; exact Nat.le_refl _
        refine ⟨?_, hmono, ?_⟩
        · show Lim f _
          unfold Lim
          dsimp only
          split
          · exact Or.inr hcut
          · rename_i hle
            rcases hlim with h | h
            · left; rw [o2]; exact h
            · right; rw [o2]; exact Cut_mono f _ _ _ _ hmono (Nat.le_refl _) h
        · intro x hx hm hs _
          rcases List.mem_cons.mp hx with rfl | hx'
          · exact Or.inl hain
          · exact Or.inr (Cut_mono f _ _ _ _ (fun y hy => hy) (hsorted.1 x hx') hcut)
      · rw [if_neg hlimit]
        by_cases hstop : stop = true
        · rw [if_pos hstop]
          refine ⟨?_, hmono, ?_⟩
          · rcases hlim with h | h
            · left; show (accept f scr a st).2.since = _; rw [o2]; exact h
            · right; show Cut f _ (accept f scr a st).2.since; rw [o2]
              exact Cut_mono f _ _ _ _ hmono (Nat.le_refl _) h
          · intro x hx hm hs huniq
            have : a = x := huniq hstop a (by simp)
            subst this
            exact Or.inl hain
        · rw [if_neg hstop]
          have hlim' : Lim f { (accept f scr a st).2 with out := insertOut (accept f scr a st).2.out a } := by
            rcases hlim with h | h
            · left; show (accept f scr a st).2.since = _; rw [o2]; exact h
            · right; show Cut f _ (accept f scr a st).2.since; rw [o2]
              exact Cut_mono f _ _ _ _ hmono (Nat.le_refl _) h
          have := ih (seen ++ [a]) hrest hsorted.2 hnd2 _ g hseen'
            (fun y hy => by
              have := hsince y (by simp [hy])
              show (accept f scr a st).2.since ≤ _
              rw [o2]; exact this) hlim'
          rw [← hlen] at this
          obtain ⟨i1, i2, i3⟩ := this
          refine ⟨i1, fun y hy => i2 y (hmono y hy), ?_⟩
          intro x hx hm hs huniq
          rcases List.mem_cons.mp hx with rfl | hx'
          · exact Or.inl (i2 _ hain)
          · exact i3 x hx' hm hs (fun h => absurd h hstop)
    · rw [if_neg hok]
      have hlim' : Lim f (accept f scr a st).2 := by
        rcases hlim with h | h
        · left; rw [o2]; exact h
        · right; rw [o2, o1]; exact h
      obtain ⟨i1, i2, i3⟩ := ih seen hrest hsorted.2 hnd3 _ g1
        (fun s hs => ⟨by rw [o1]; exact (hseen s hs).1, fun y hy => (hseen s hs).2 y (by simp [hy])⟩)
        (fun y hy => by have := hsince y (by simp [hy]); rw [o2]; exact this) hlim'
      refine ⟨i1, fun y hy => i2 y (by rw [o1]; exact hy), ?_⟩
      intro x hx hm hs huniq
      rcases List.mem_cons.mp hx with rfl | hx'
      · exact absurd (accept_true f scr _ st hm hs) hok
      · refine i3 x hx' hm hs (fun h y hy => ?_)
        exact huniq h y (by simp [hy])

theorem consumeRange_since_mono (f : FilterRec) (scr : EventRec → Screen) (stop : Bool) (l : List SEv)
    (count : Nat) (st : FindState) : st.since ≤ (consumeRange f scr stop l count st).since := by
  induction l generalizing count st with
  | nil => exact Nat.le_refl _
  | cons a rest ih =>
    obtain ⟨_, o2, _, _⟩ := accept_spec f scr a st
    unfold consumeRange
    split
    · exact Nat.le_refl _
    · dsimp only
      split
      · split
        · dsimp only
          split
          · rw [o2] at *; omega
          · rw [o2]; exact Nat.le_refl _
        · split
          · show st.since ≤ (accept f scr a st).2.since; rw [o2]; exact Nat.le_refl _
          · refine Nat.le_trans ?_ (ih _ _)
            show st.since ≤ (accept f scr a st).2.since; rw [o2]; exact Nat.le_refl _
      · refine Nat.le_trans ?_ (ih _ _)
        rw [o2]; exact Nat.le_refl _

/-- the author plan's loop tests against the filter's own `since`; on a range opened at the current
`since` (never below the filter's) that is the same loop -/
theorem consumeRangeAc_eq (f : FilterRec) (scr : EventRec → Screen) (l : List SEv) (count : Nat)
    (st : FindState) (h1 : ∀ y ∈ l, st.since ≤ y.e.createdAt) (h2 : ∀ y ∈ l, f.since ≤ y.e.createdAt) :
    consumeRangeAc f scr l count st = consumeRange f scr false l count st := by
  induction l generalizing count st with
  | nil => rfl
  | cons a rest ih =>
    obtain ⟨_, o2, _, _⟩ := accept_spec f scr a st
    have hn1 : ¬ a.e.createdAt < st.since := by have := h1 a (by simp); omega
    have hn2 : ¬ a.e.createdAt < f.since := by have := h2 a (by simp); omega
    unfold consumeRangeAc consumeRange
    rw [if_neg hn1, if_neg hn2]
    dsimp only
    split
    · split
      · rfl
      · simp only [Bool.false_eq_true, if_false]
        exact ih _ _ (fun y hy => by
          show (accept f scr a st).2.since ≤ _; rw [o2]; exact h1 y (by simp [hy]))
          (fun y hy => h2 y (by simp [hy]))
    · exact ih _ _ (fun y hy => by rw [o2]; exact h1 y (by simp [hy])) (fun y hy => h2 y (by simp [hy]))

/-- a list of ranges, any limit: every matching event lying in one of the ranges is collected, or
`limit` collected events are at least as new -/
theorem planRanges_gen (live : List SEv) (f : FilterRec) (scr : EventRec → Screen)
    (hids : (live.map (·.e.id)).Nodup) (rs : List (Bool × (Nat → List SEv)))
    (hr : ∀ r ∈ rs, ∀ n, (∀ y ∈ r.2 n, y ∈ live ∧ n ≤ y.e.createdAt) ∧ (r.2 n).Nodup ∧
        (r.2 n).Pairwise (fun a b => a.e.createdAt ≥ b.e.createdAt))
    (st : FindState) (hg : Good live f scr st) (hlim : Lim f st) :
    Lim f (planRanges f scr rs st) ∧
    (∀ y ∈ st.out, y ∈ (planRanges f scr rs st).out) ∧
    (∀ r ∈ rs, ∀ x : SEv, (∀ n, n ≤ x.e.createdAt → x ∈ r.2 n) → f.since ≤ x.e.createdAt →
        eventMatches f x.e = true → scr x.e = .match → (r.1 = true → ∀ n, ∀ y ∈ r.2 n, y = x) →
        x ∈ (planRanges f scr rs st).out ∨ Cut f (planRanges f scr rs st).out x.e.createdAt) := by
  induction rs generalizing st with
  | nil => exact ⟨hlim, fun y hy => hy, fun r hr' => by cases hr'⟩
  | cons r rest ih =>
    obtain ⟨stop, range⟩ := r
    obtain ⟨r1, r2, r3⟩ := hr (stop, range) (by simp) st.since
    obtain ⟨c1, c2, c3⟩ := consumeRange_gen live f scr hids stop (range st.since) []
      (fun y hy => (r1 y hy).1) r3 (by simpa using r2) st hg (fun s hs => by cases hs)
      (fun y hy => (r1 y hy).2) hlim
    have g' := Good_consumeRange live f scr stop (range st.since) (fun y hy => (r1 y hy).1) 0 st hg
    obtain ⟨i1, i2, i3⟩ := ih (fun r' hr' => hr r' (by simp [hr'])) _ g' c1
    unfold planRanges
    refine ⟨i1, fun y hy => i2 y (c2 y hy), ?_⟩
    intro r' hr' x hx hfs hm hs hu
    rcases List.mem_cons.mp hr' with rfl | hin
    · by_cases hge : st.since ≤ x.e.createdAt
      · rcases c3 x (hx _ hge) hm hs (fun h y hy => hu h _ y hy) with h | h
        · exact Or.inl (i2 x h)
        · exact Or.inr (Cut_mono f _ _ _ _ i2 (Nat.le_refl _) h)
      · rcases hlim with h | h
        · omega
        · exact Or.inr (Cut_mono f _ _ _ _ (fun y hy => i2 y (c2 y hy)) (by omega) h)
    · exact i3 r' hin x hx hfs hm hs hu

theorem planAc_gen (live : List SEv) (f : FilterRec) (scr : EventRec → Screen)
    (hids : (live.map (·.e.id)).Nodup) (as : List Bytes)
    (st : FindState) (hg : Good live f scr st) (hlim : Lim f st) (hs0 : f.since ≤ st.since) :
    (∀ y ∈ st.out, y ∈ (planAc live f scr as st).out) ∧
    (∀ a ∈ as, ∀ x : SEv, (∀ n, n ≤ x.e.createdAt → x ∈ acScan live a n f.until) →
        f.since ≤ x.e.createdAt → eventMatches f x.e = true → scr x.e = .match →
        x ∈ (planAc live f scr as st).out ∨ Cut f (planAc live f scr as st).out x.e.createdAt) := by
  induction as generalizing st with
  | nil => exact ⟨fun y hy => hy, fun a ha => by cases ha⟩
  | cons a rest ih =>
    have hsc : ∀ y ∈ acScan live a st.since f.until, y ∈ live ∧ st.since ≤ y.e.createdAt := by
      intro y hy
      have := (scan_mem_iff _ _ _ _ _).mp hy
      exact ⟨this.1, this.2.2.1⟩
    have heq := consumeRangeAc_eq f scr (acScan live a st.since f.until) 0 st
      (fun y hy => (hsc y hy).2) (fun y hy => Nat.le_trans hs0 (hsc y hy).2)
    obtain ⟨c1, c2, c3⟩ := consumeRange_gen live f scr hids false (acScan live a st.since f.until) []
      (fun y hy => (hsc y hy).1) (scan_sorted _ _ _ _) (by simpa [acScan] using scan_nodup live hids (fun e => e.pubkey == a) st.since f.until) st hg
      (fun s hs => by cases hs) (fun y hy => (hsc y hy).2) hlim
    have g' := Good_consumeRange live f scr false (acScan live a st.since f.until)
      (fun y hy => (hsc y hy).1) 0 st hg
    have hmono := consumeRange_since_mono f scr false (acScan live a st.since f.until) 0 st
    obtain ⟨i1, i2⟩ := ih _ g' c1 (Nat.le_trans hs0 hmono)
    unfold planAc
    rw [heq]
    refine ⟨fun y hy => i1 y (c2 y hy), ?_⟩
    intro a' ha' x hx hfs hm hs
    rcases List.mem_cons.mp ha' with rfl | hin
    · by_cases hge : st.since ≤ x.e.createdAt
      · rcases c3 x (hx _ hge) hm hs (fun h => by cases h) with h | h
        · exact Or.inl (i1 x h)
        · exact Or.inr (Cut_mono f _ _ _ _ i1 (Nat.le_refl _) h)
      · rcases hlim with h | h
        · omega
        · exact Or.inr (Cut_mono f _ _ _ _ (fun y hy => i1 y (c2 y hy)) (by omega) h)
    · exact i2 a' hin x hx hfs hm hs

/-- the scrape plan walks the whole time index newest first and stops at `limit` collected -/
theorem consumeScrape_gen (live : List SEv) (f : FilterRec) (scr : EventRec → Screen)
    (hids : (live.map (·.e.id)).Nodup) (l : List SEv) (hl : ∀ y ∈ l, y ∈ live)
    (hsorted : l.Pairwise (fun a b => a.e.createdAt ≥ b.e.createdAt))
    (st : FindState) (hg : Good live f scr st)
    (hnew : ∀ s ∈ st.out, ∀ y ∈ l, y.e.createdAt ≤ s.e.createdAt) :
    (∀ y ∈ st.out, y ∈ (consumeScrape f scr l st).out) ∧
    (∀ x ∈ l, eventMatches f x.e = true → scr x.e = .match →
        x ∈ (consumeScrape f scr l st).out ∨ Cut f (consumeScrape f scr l st).out x.e.createdAt) := by
  induction l generalizing st with
  | nil => exact ⟨fun y hy => hy, fun x hx => by cases hx⟩
  | cons a rest ih =>
    have ha := hl a (by simp)
    have hrest : ∀ y ∈ rest, y ∈ live := fun y hy => hl y (by simp [hy])
    obtain ⟨g1, g2⟩ := Good_accept_insert live f scr st a ha hg
    obtain ⟨o1, _, _, _⟩ := accept_spec f scr a st
    rw [List.pairwise_cons] at hsorted
    unfold consumeScrape
    by_cases hfull : st.out.length ≥ f.limit
    · rw [if_pos hfull]
      refine ⟨fun y hy => hy, ?_⟩
      intro x hx _ _
      right
      refine ⟨st.out, ?_, hfull, fun s hs => ⟨hs, hnew s hs x hx⟩⟩
      exact hg.nodup.imp (fun h hab => h (by rw [hab]))
    · rw [if_neg hfull]
      dsimp only
      by_cases hok : (accept f scr a st).1 = true
      · rw [if_pos hok]
        have hnew' : ∀ s ∈ insertOut (accept f scr a st).2.out a, ∀ y ∈ rest, y.e.createdAt ≤ s.e.createdAt := by
          intro s hs y hy
          rcases insertOut_mem _ _ _ hs with h | h
          · rw [o1] at h; exact hnew s h y (by simp [hy])
          · subst h; exact hsorted.1 y hy
        obtain ⟨i1, i2⟩ := ih hrest hsorted.2 _ (g2 hok) hnew'
        refine ⟨fun y hy => i1 y (insertOut_mono _ _ _ (by rw [o1]; exact hy)), ?_⟩
        intro x hx hm hs
        rcases List.mem_cons.mp hx with rfl | hx'
        · exact Or.inl (i1 _ (insertOut_self live _ _ hids ha (fun y hy => (g1.sound y hy).1)))
        · exact i2 x hx' hm hs
      · rw [if_neg hok]
        obtain ⟨i1, i2⟩ := ih hrest hsorted.2 _ g1
          (fun s hs y hy => hnew s (by rw [← o1]; exact hs) y (by simp [hy]))
        refine ⟨fun y hy => i1 y (by rw [o1]; exact hy), ?_⟩
        intro x hx hm hs
        rcases List.mem_cons.mp hx with rfl | hx'
        · exact absurd (accept_true f scr _ st hm hs) hok
        · exact i2 x hx' hm hs


theorem scan_range_gen (live : List SEv) (hids : (live.map (·.e.id)).Nodup) (p : EventRec → Bool) (n u : Nat) :
    (∀ y ∈ scan live p n u, y ∈ live ∧ n ≤ y.e.createdAt) ∧ (scan live p n u).Nodup ∧
      (scan live p n u).Pairwise (fun a b => a.e.createdAt ≥ b.e.createdAt) :=
  ⟨fun y hy => by have := (scan_mem_iff _ _ _ _ _).mp hy; exact ⟨this.1, this.2.2.1⟩,
   scan_nodup live hids p n u, scan_sorted live p n u⟩

/-- whichever plan serves the filter: a retrievable, matching, screened-in event is collected, or
`limit` collected events are at least as new -/
theorem findState_collects (live : List SEv) (f : FilterRec) (allow : Bool) (l secs now : Nat)
    (scr : EventRec → Screen) (st : FindState)
    (hids : (live.map (·.e.id)).Nodup) (hau : AddrUniq live) (hsl : SingleLetter f)
    (hst : findState live f allow l secs now scr = some st)
    (x : SEv) (hx : x ∈ live) (hm : eventMatches f x.e = true) (hs : scr x.e = .match) :
    x ∈ st.out ∨ Cut f st.out x.e.createdAt := by
  obtain ⟨m1, m2, m3, m4, m5⟩ := eventMatches_facts f x.e hm
  have g0 := Good_init live f scr f.since
  have l0 : Lim f ({ since := f.since } : FindState) := Or.inl rfl
  unfold findState at hst
  dsimp only at hst
  by_cases hi : f.ids.isEmpty = false
  · -- ids plan
    simp only [hi, Bool.not_false, if_true, Option.some.injEq] at hst
    subst hst
    have hne : f.ids ≠ [] := by intro hh; simp [hh] at hi
    have hin : x.e.id ∈ f.ids := m1.resolve_left hne
    exact Or.inl ((planIds_complete live f scr hids f.ids _ g0).2 x hx hin hm hs)
  have hi' : f.ids.isEmpty = true := by simpa using hi
  simp only [hi', Bool.not_true, Bool.false_eq_true, if_false] at hst
  by_cases ha : f.authors.isEmpty = false
  · have hane : f.authors ≠ [] := by intro hh; simp [hh] at ha
    have hain : x.e.pubkey ∈ f.authors := m2.resolve_left hane
    by_cases hk : f.kinds.isEmpty = false
    · -- author + kind plan
      simp only [ha, hk, Bool.not_false, Bool.and_self, if_true, Option.some.injEq] at hst
      subst hst
      have hkne : f.kinds ≠ [] := by intro hh; simp [hh] at hk
      have hkin : x.e.kind ∈ f.kinds := m3.resolve_left hkne
      have hr : ∀ r ∈ akcRanges live f, ∀ n, (∀ y ∈ r.2 n, y ∈ live ∧ n ≤ y.e.createdAt) ∧
          (r.2 n).Nodup ∧ (r.2 n).Pairwise (fun a b => a.e.createdAt ≥ b.e.createdAt) := by
        intro r hr n
        simp only [akcRanges, List.mem_map] at hr
        obtain ⟨⟨a, k⟩, _, rfl⟩ := hr
        exact scan_range_gen live hids (fun e => e.pubkey == a && e.kind == k) n f.until
      refine (planRanges_gen live f scr hids _ hr _ g0 l0).2.2
        (isReplaceable x.e.kind, fun since => akcScan live x.e.pubkey x.e.kind since f.until) ?_ x ?_ m4 hm hs ?_
      · simp only [akcRanges, List.mem_map]
        exact ⟨(x.e.pubkey, x.e.kind), (mem_pairs _ _ _ _).mpr ⟨hain, hkin⟩, rfl⟩
      · intro n hn
        show x ∈ scan live (fun e => e.pubkey == x.e.pubkey && e.kind == x.e.kind) n f.until
        exact (scan_mem_iff _ _ _ _ _).mpr ⟨hx, by simp, hn, m5⟩
      · intro hrep n y hy
        have hy' := (scan_mem_iff live (fun e => e.pubkey == x.e.pubkey && e.kind == x.e.kind) n f.until y).mp hy
        simp only [Bool.and_eq_true, beq_iff_eq] at hy'
        have : addrOf y.e = addrOf x.e := (repl_holder_iff x.e y.e hrep).mp ⟨hy'.2.1.1, hy'.2.1.2⟩
        have hrep' : isReplaceable x.e.kind = true := hrep
        exact hau y hy'.1 x hx this (by rw [this]; unfold addrOf; rw [if_pos hrep']; simp)
    have hk' : f.kinds.isEmpty = true := by simpa using hk
    by_cases ht : f.tags.isEmpty = false
    · -- author + tag plan
      simp only [ha, hk', ht, Bool.not_false, Bool.not_true, Bool.and_false, Bool.and_self,
        Bool.false_eq_true, if_false, if_true, Option.some.injEq] at hst
      subst hst
      have htne : f.tags ≠ [] := by intro hh; simp [hh] at ht
      obtain ⟨p, hp, hkey⟩ := match_has_probe f x.e hsl htne hm
      have hr : ∀ r ∈ atcRanges live f, ∀ n, (∀ y ∈ r.2 n, y ∈ live ∧ n ≤ y.e.createdAt) ∧
          (r.2 n).Nodup ∧ (r.2 n).Pairwise (fun a b => a.e.createdAt ≥ b.e.createdAt) := by
        intro r hr n
        simp only [atcRanges, List.mem_map] at hr
        obtain ⟨⟨a, q⟩, _, rfl⟩ := hr
        exact scan_range_gen live hids (fun e => e.pubkey == a && hasTagKey e q.1 q.2) n f.until
      refine (planRanges_gen live f scr hids _ hr _ g0 l0).2.2
        (false, fun since => atcScan live x.e.pubkey p.1 p.2 since f.until) ?_ x ?_ m4 hm hs (fun h => by cases h)
      · simp only [atcRanges, List.mem_map]
        exact ⟨(x.e.pubkey, p), (mem_pairs _ _ _ _).mpr ⟨hain, hp⟩, rfl⟩
      · intro n hn
        show x ∈ scan live (fun e => e.pubkey == x.e.pubkey && hasTagKey e p.1 p.2) n f.until
        exact (scan_mem_iff _ _ _ _ _).mpr ⟨hx, by simp [hkey], hn, m5⟩
    · -- author plan
      have ht' : f.tags.isEmpty = true := by simpa using ht
      simp only [ha, hk', ht', Bool.not_false, Bool.not_true, Bool.and_false, Bool.and_self,
        Bool.false_eq_true, if_false, if_true, Option.some.injEq] at hst
      subst hst
      refine (planAc_gen live f scr hids f.authors _ g0 l0 (Nat.le_refl _)).2 x.e.pubkey hain x ?_ m4 hm hs
      intro n hn
      show x ∈ scan live (fun e => e.pubkey == x.e.pubkey) n f.until
      exact (scan_mem_iff _ _ _ _ _).mpr ⟨hx, by simp, hn, m5⟩
  have ha' : f.authors.isEmpty = true := by simpa using ha
  by_cases ht : f.tags.isEmpty = false
  · have htne : f.tags ≠ [] := by intro hh; simp [hh] at ht
    obtain ⟨p, hp, hkey⟩ := match_has_probe f x.e hsl htne hm
    by_cases hk : f.kinds.isEmpty = false
    · -- kind + tag plan
      simp only [ha', hk, ht, Bool.not_false, Bool.not_true, Bool.false_and, Bool.and_self,
        Bool.false_eq_true, if_false, if_true, Option.some.injEq] at hst
      subst hst
      have hkne : f.kinds ≠ [] := by intro hh; simp [hh] at hk
      have hkin : x.e.kind ∈ f.kinds := m3.resolve_left hkne
      have hr : ∀ r ∈ ktcRanges live f, ∀ n, (∀ y ∈ r.2 n, y ∈ live ∧ n ≤ y.e.createdAt) ∧
          (r.2 n).Nodup ∧ (r.2 n).Pairwise (fun a b => a.e.createdAt ≥ b.e.createdAt) := by
        intro r hr n
        simp only [ktcRanges, List.mem_map] at hr
        obtain ⟨⟨k, q⟩, _, rfl⟩ := hr
        exact scan_range_gen live hids (fun e => e.kind == k && hasTagKey e q.1 q.2) n f.until
      refine (planRanges_gen live f scr hids _ hr _ g0 l0).2.2
        (false, fun since => ktcScan live x.e.kind p.1 p.2 since f.until) ?_ x ?_ m4 hm hs (fun h => by cases h)
      · simp only [ktcRanges, List.mem_map]
        exact ⟨(x.e.kind, p), (mem_pairs _ _ _ _).mpr ⟨hkin, hp⟩, rfl⟩
      · intro n hn
        show x ∈ scan live (fun e => e.kind == x.e.kind && hasTagKey e p.1 p.2) n f.until
        exact (scan_mem_iff _ _ _ _ _).mpr ⟨hx, by simp [hkey], hn, m5⟩
    · -- tag plan
      have hk' : f.kinds.isEmpty = true := by simpa using hk
      simp only [ha', hk', ht, Bool.not_false, Bool.not_true, Bool.false_and, Bool.and_self,
        Bool.false_eq_true, if_false, if_true, Option.some.injEq] at hst
      subst hst
      have hr : ∀ r ∈ tcRanges live f, ∀ n, (∀ y ∈ r.2 n, y ∈ live ∧ n ≤ y.e.createdAt) ∧
          (r.2 n).Nodup ∧ (r.2 n).Pairwise (fun a b => a.e.createdAt ≥ b.e.createdAt) := by
        intro r hr n
        simp only [tcRanges, List.mem_map] at hr
        obtain ⟨q, _, rfl⟩ := hr
        exact scan_range_gen live hids (fun e => hasTagKey e q.1 q.2) n f.until
      refine (planRanges_gen live f scr hids _ hr _ g0 l0).2.2
        (false, fun since => tcScan live p.1 p.2 since f.until) ?_ x ?_ m4 hm hs (fun h => by cases h)
      · simp only [tcRanges, List.mem_map]; exact ⟨p, hp, rfl⟩
      · intro n hn
        show x ∈ scan live (fun e => hasTagKey e p.1 p.2) n f.until
        exact (scan_mem_iff _ _ _ _ _).mpr ⟨hx, hkey, hn, m5⟩
  · -- scrape plan
    have ht' : f.tags.isEmpty = true := by simpa using ht
    simp only [ha', ht', Bool.not_true, Bool.false_and, Bool.and_false, Bool.false_eq_true, if_false] at hst
    split at hst
    · simp only [Option.some.injEq] at hst
      subst hst
      refine (consumeScrape_gen live f scr hids (scan live (fun _ => true) f.since f.until)
        (fun y hy => ((scan_mem_iff _ _ _ _ _).mp hy).1) (scan_sorted _ _ _ _) _ g0
        (fun s hs => by cases hs)).2 x ?_ hm hs
      exact (scan_mem_iff _ _ _ _ _).mpr ⟨hx, rfl, m4, m5⟩
    · cases hst

/-! ### the final sort and cut -/

theorem insertOutSorted_length (x : SEv) (l : List SEv) : (insertOutSorted x l).length = l.length + 1 := by
  induction l with
  | nil => rfl
  | cons a l ih => unfold insertOutSorted; split <;> simp [ih]

theorem sortOut_length (l : List SEv) : (sortOut l).length = l.length := by
  unfold sortOut
  induction l with
  | nil => rfl
  | cons a l ih => simp only [List.foldr_cons, insertOutSorted_length, ih, List.length_cons]

/-- cutting a newest-first list at `k`: if `x` is in the list but not in the first `k`, or `k`
distinct members are at least as new as `x`, then the cut has exactly `k` members, none older than `x` -/
theorem take_newest (k : Nat) (sorted : List SEv) (t : Nat)
    (hs : sorted.Pairwise (fun a b => a.e.createdAt ≥ b.e.createdAt))
    (h : (∃ x ∈ sorted, x ∉ sorted.take k ∧ x.e.createdAt = t) ∨
      (∃ S : List SEv, S.Nodup ∧ k ≤ S.length ∧ ∀ s ∈ S, s ∈ sorted ∧ t ≤ s.e.createdAt)) :
    (sorted.take k).length = k ∧ ∀ y ∈ sorted.take k, t ≤ y.e.createdAt := by
  have hsplit : sorted = sorted.take k ++ sorted.drop k := (List.take_append_drop k sorted).symm
  have hs' := hs
  rw [hsplit, List.pairwise_append] at hs'
  obtain ⟨hL, _, hLR⟩ := hs'
  rcases h with ⟨x, hx, hnot, rfl⟩ | ⟨S, hnd, hlen, hS⟩
  · have hxR : x ∈ sorted.drop k := by
      rw [hsplit] at hx
      rcases List.mem_append.mp hx with h | h
      · exact absurd h hnot
      · exact h
    have hpos : 0 < (sorted.drop k).length := List.length_pos_of_mem hxR
    rw [List.length_drop] at hpos
    refine ⟨by rw [List.length_take]; omega, fun y hy => hLR y hy x hxR⟩
  · have hSl : S.length ≤ sorted.length := nodup_subset_length S sorted hnd (fun s hs => (hS s hs).1)
    have hlenL : (sorted.take k).length = k := by rw [List.length_take]; omega
    refine ⟨hlenL, ?_⟩
    intro y hy
    apply Classical.byContradiction
    intro hlt
    have hlt : y.e.createdAt < t := by omega
    obtain ⟨L1, L2, hL12⟩ := List.append_of_mem hy
    have hL' := hL
    rw [hL12, List.pairwise_append] at hL'
    obtain ⟨_, hyL2, _⟩ := hL'
    rw [List.pairwise_cons] at hyL2
    have hsub : ∀ s ∈ S, s ∈ L1 := by
      intro s hs
      obtain ⟨hin, hts⟩ := hS s hs
      rw [hsplit, hL12] at hin
      rcases List.mem_append.mp hin with h | h
      · rcases List.mem_append.mp h with h | h
        · exact h
        · rcases List.mem_cons.mp h with h | h
          · subst h; omega
          · have := hyL2.1 s h; omega
      · have := hLR y hy s h; omega
    have h1 : S.length ≤ L1.length := nodup_subset_length S L1 hnd hsub
    have h2 : (sorted.take k).length = L1.length + (L2.length + 1) := by rw [hL12]; simp
    omega

/-- **newest-k under a binding limit**: a retrievable, matching, screened-in event that is *not*
returned means that exactly `limit` events were returned and none of them is older than it -/
theorem findEvents_newest (live : List SEv) (f : FilterRec) (allow : Bool) (l secs now : Nat)
    (scr : EventRec → Screen) (out : List SEv) (red : Bool)
    (hids : (live.map (·.e.id)).Nodup) (hau : AddrUniq live) (hsl : SingleLetter f)
    (h : findEvents live f allow l secs now scr = .ok out red)
    (x : SEv) (hx : x ∈ live) (hm : eventMatches f x.e = true) (hs : scr x.e = .match)
    (hnot : x ∉ out) :
    out.length = f.limit ∧ ∀ y ∈ out, x.e.createdAt ≤ y.e.createdAt := by
  unfold findEvents at h
  split at h
  · rename_i st hst
    simp only [FindReply.ok.injEq] at h
    obtain ⟨rfl, _⟩ := h
    refine take_newest f.limit (sortOut st.out) x.e.createdAt (sortOut_sorted _) ?_
    rcases findState_collects live f allow l secs now scr st hids hau hsl hst x hx hm hs with hc | hc
    · exact Or.inl ⟨x, (sortOut_mem _ _).mpr hc, hnot, rfl⟩
    · obtain ⟨S, h1, h2, h3⟩ := hc
      exact Or.inr ⟨S, h1, h2, fun s hs => ⟨(sortOut_mem _ _).mpr (h3 s hs).1, (h3 s hs).2⟩⟩
  · cases h

end Pocket
