import Pocket.Src.Hex
import Pocket.Model.Hll
import Pocket.Model.Escape
/- What the source says NOW (`Pocket/Src/*.lean`, regenerated from /repo by `lib/srcfacts.py` on every check run)
against what the model says.  A change of any of these in the source breaks the corresponding theorem. -/
namespace Pocket

theorem forall_lt_of_all (n : Nat) (p : Nat → Bool) (h : (List.range n).all p = true) : ∀ k, k < n → p k = true := by
  intro k hk
  exact List.all_eq_true.1 h k (List.mem_range.2 hk)

/-- `HEX_INVERSE`, as read from the source: the table lookup of `read_hex!` (index by byte, 255 = not a hex character,
outside the table = not a hex character) is the model's `hexInv`, for every byte value -/
theorem hex_table_from_source (b : Nat) (hb : b < 256) :
    hexInv b = (match Src.hexInverse[b]? with | some h => if h = 255 then none else some h | none => none) := by
  have h : (List.range 256).all (fun b => hexInv b == (match Src.hexInverse[b]? with | some h => if h = 255 then none else some h | none => none)) = true := by
    decide +kernel
  exact eq_of_beq (forall_lt_of_all 256 _ h b hb)

/-- ... and the same table read by code point in `json_unescape`'s `\u` digits -/
theorem hex_table_unescape_from_source (b : Nat) (hb : b < 256) :
    hexVal b = (match Src.hexInverse[b]? with | some h => if h = 255 then none else some h | none => none) := by
  have h : (List.range 256).all (fun b => hexVal b == (match Src.hexInverse[b]? with | some h => if h = 255 then none else some h | none => none)) = true := by
    decide +kernel
  exact eq_of_beq (forall_lt_of_all 256 _ h b hb)

end Pocket
