import Pocket.Lemmas.FilterRT
/- runs of JSON whitespace -/
namespace Pocket

/-- a run of JSON whitespace -/
def AllWs (w : Bytes) : Prop := ∀ b ∈ w, isWs b = true

theorem eatWs_ws (w x : Bytes) (hw : AllWs w) : eatWs (w ++ x) = eatWs x := by
  induction w with
  | nil => rfl
  | cons b w ih =>
    have hb := hw b (by simp)
    simp only [List.cons_append, eatWs, hb, if_true]
    exact ih (fun y hy => hw y (by simp [hy]))

theorem eatWs_ws_keep (w : Bytes) (b : Nat) (x : Bytes) (hw : AllWs w) (hb : isWs b = false) :
    eatWs (w ++ b :: x) = b :: x := by
  rw [eatWs_ws w _ hw, eatWs_nonws b x hb]

theorem eatColon_ws (w1 w2 : Bytes) (b : Nat) (x : Bytes) (h1 : AllWs w1) (h2 : AllWs w2) (hb : isWs b = false) :
    eatColon (w1 ++ 58 :: (w2 ++ b :: x)) = .ok (b :: x) := by
  unfold eatColon
  rw [eatWs_ws_keep w1 58 _ h1 (by decide)]
  simp only [verifyChar, if_true]
  rw [eatWs_ws_keep w2 b x h2 hb]

end Pocket
