import Pocket.Lemmas.Total
import Pocket.Lemmas.Layout
/- A successful parse yields a well-formed binary value (shared by C01, C03, C19). -/
namespace Pocket

theorem unhexPairs_length : ∀ (inp v : Bytes), unhexPairs inp = .ok v → v.length * 2 = inp.length
  | [], v, h => by simp [unhexPairs] at h; subst h; rfl
  | [_], v, h => by simp [unhexPairs] at h
  | a :: b :: rest, v, h => by
    unfold unhexPairs at h
    split at h
    · split at h
      · rename_i r hr
        simp only [Outcome.ok.injEq] at h; subst h
        have := unhexPairs_length rest r hr
        simp only [List.length_cons]; omega
      · cases h
      · cases h
    · cases h

theorem readHexField_length (n : Nat) (inp v r : Bytes) (h : readHexField n inp = .ok (v, r)) :
    v.length = n := by
  unfold readHexField at h
  split at h
  · rename_i r0 _
    split at h
    · cases h
    · split at h
      · rename_i v' hv
        split at h
        · simp only [Outcome.ok.injEq, Prod.mk.injEq] at h
          obtain ⟨rfl, _⟩ := h
          unfold readHex at hv
          split at hv
          · cases hv
          · rename_i hl
            have := unhexPairs_length _ _ hv
            simp only [ne_eq, Decidable.not_not] at hl
            omega
        · cases h
        · cases h
      · cases h
      · cases h
  · cases h
  · cases h

theorem readU64Loop_bound (inp : Bytes) (acc : Nat) (any : Bool) (v : Nat) (a : Bool) (r : Bytes)
    (h : readU64Loop inp acc any = .ok (v, a, r)) (hacc : acc ≤ U64MAX) : v ≤ U64MAX := by
  induction inp generalizing acc any with
  | nil => simp [readU64Loop] at h; omega
  | cons b rest ih =>
    unfold readU64Loop at h
    split at h
    · dsimp only at h
      split at h
      · cases h
      · exact ih _ _ h (by omega)
    · simp at h; omega

theorem readU64_bound (inp : Bytes) (v : Nat) (r : Bytes) (h : readU64 inp = .ok (v, r)) :
    v < 18446744073709551616 := by
  unfold readU64 at h
  split at h
  · rename_i v' any rest hl
    split at h
    · simp only [Outcome.ok.injEq, Prod.mk.injEq] at h
      have := readU64Loop_bound inp 0 false v' any rest hl (by simp [U64MAX])
      unfold U64MAX at this; omega
    · cases h
  · cases h
  · cases h

theorem readKindLoop_bound (inp : Bytes) (acc : Nat) (any : Bool) (v : Nat) (a : Bool) (r : Bytes)
    (h : readKindLoop inp acc any = .ok (v, a, r)) (hacc : acc ≤ 65535) : v ≤ 65535 := by
  induction inp generalizing acc any with
  | nil => simp [readKindLoop] at h; omega
  | cons b rest ih =>
    unfold readKindLoop at h
    split at h
    · dsimp only at h
      split at h
      · cases h
      · exact ih _ _ h (by omega)
    · simp at h; omega

theorem readKind_bound (inp : Bytes) (v : Nat) (r : Bytes) (h : readKind inp = .ok (v, r)) :
    v < 65536 := by
  unfold readKind at h
  split at h
  · rename_i v' any rest hl
    split at h
    · simp only [Outcome.ok.injEq, Prod.mk.injEq] at h
      have := readKindLoop_bound inp 0 false v' any rest hl (by omega)
      omega
    · cases h
  · cases h
  · cases h

/-- the offsets the tag loop writes are the offsets `encodeTags` writes, and it reads exactly
`numTags - tagNum` tags -/
theorem readTagsLoop_spec (fuel : Nat) (inp : Bytes) (k n outpos cap : Nat) (r : Bytes)
    (offs : List Nat) (ts : TagsRec)
    (h : readTagsLoop fuel inp k n outpos cap = .ok (r, offs, ts)) (hk : k < n) :
    k + ts.length = n ∧ encOffList offs = encOffsets outpos ts := by
  induction fuel generalizing inp k outpos offs ts r with
  | zero => simp [readTagsLoop] at h
  | succ fuel ih =>
    unfold readTagsLoop at h
    split at h
    · cases h
    · split at h
      · rename_i r1 t _
        dsimp only at h
        split at h
        · cases h
        · rename_i b rest _
          split at h
          · split at h
            · cases h
            · rename_i hne
              simp only [Outcome.ok.injEq, Prod.mk.injEq] at h
              obtain ⟨_, rfl, rfl⟩ := h
              simp only [ne_eq, Decidable.not_not] at hne
              refine ⟨by simp; omega, by simp [encOffList, encOffsets]⟩
          · split at h
            · split at h
              · split at h
                · cases h
                · rename_i hlt
                  split at h
                  · rename_i r2 offs' ts' hrec
                    simp only [Outcome.ok.injEq, Prod.mk.injEq] at h
                    obtain ⟨_, rfl, rfl⟩ := h
                    have := ih _ _ _ _ _ _ hrec (by omega)
                    refine ⟨by simp; omega, ?_⟩
                    simp only [encOffList, encOffsets, this.2]
                  · cases h
                  · cases h
              · cases h
              · cases h
            · cases h
      · cases h
      · cases h

/-- `read_tags_array` writes a well-formed tag section: the layout of `encodeTags` for the tags
it read, and it fits the `u16` fields -/
theorem readTagsArray_spec (inp : Bytes) (cap : Nat) (r tb : Bytes)
    (h : readTagsArray inp cap = .ok (r, tb)) : ∃ ts, tb = encodeTags ts ∧ tagsSize ts ≤ 65535 := by
  unfold readTagsArray at h
  split at h
  · dsimp only at h
    split at h
    · cases h
    · split at h
      · rename_i numTags _
        split at h
        · cases h
        · split at h
          · split at h
            · simp only [Outcome.ok.injEq, Prod.mk.injEq] at h
              obtain ⟨_, rfl⟩ := h
              exact ⟨[], by simp [encodeTags, tagsSize, tagsBodySize, encOffsets, encTagsBody], by simp [tagsSize, tagsBodySize]⟩
            · cases h
            · cases h
          · rename_i hn0
            split at h
            · split at h
              · cases h
              · split at h
                · rename_i r' offs ts hloop
                  split at h
                  · cases h
                  · rename_i hfit
                    simp only [Outcome.ok.injEq, Prod.mk.injEq] at h
                    obtain ⟨_, rfl⟩ := h
                    have hs := readTagsLoop_spec _ _ _ _ _ _ _ _ _ hloop (by omega)
                    have hlen : ts.length = numTags := by omega
                    refine ⟨ts, ?_, ?_⟩
                    · unfold encodeTags tagsSize
                      rw [hs.2, hlen]
                      simp [Nat.mul_comm]
                    · unfold tagsSize; rw [hlen]; omega
                · cases h
                · cases h
            · cases h
            · cases h
      · cases h
      · cases h
  · cases h
  · cases h

theorem readContent_bound (inp : Bytes) (cap a : Nat) (r c : Bytes)
    (h : readContent inp cap a = .ok (r, c)) : a + 4 + c.length ≤ 4294967295 := by
  unfold readContent at h
  split at h
  · split at h
    · cases h
    · split at h
      · split at h
        · cases h
        · rename_i hb
          simp only [Outcome.ok.injEq, Prod.mk.injEq] at h
          obtain ⟨_, rfl⟩ := h
          unfold U32MAX at hb; omega
      · cases h
      · cases h
  · cases h
  · cases h

theorem nextCodePoint_size (inp : Bytes) (cp size : Nat)
    (h : nextCodePoint inp = .ok (some (cp, size))) : 1 ≤ size ∧ size ≤ inp.length := by
  unfold nextCodePoint at h
  repeat' split at h
  all_goals (try cases h)
  all_goals (simp only [List.length_cons]; omega)

/-- `json_unescape` never writes past the capacity it was given and never reports more input
consumed than there is -/
theorem unescF_bounds (fuel : Nat) (inp : Bytes) (st : EscSt) (pos cap c : Nat) (o : Bytes)
    (h : unescF fuel inp st pos cap = .ok (c, o)) (hp : pos ≤ cap) :
    pos + o.length ≤ cap ∧ c ≤ inp.length := by
  induction fuel generalizing inp st pos c o with
  | zero => simp [unescF] at h; obtain ⟨rfl, rfl⟩ := h; simp; omega
  | succ fuel ih =>
    unfold unescF at h
    split at h
    · cases h
    · cases h
    · simp only [Outcome.ok.injEq, Prod.mk.injEq] at h; obtain ⟨rfl, rfl⟩ := h; simp; omega
    · rename_i cp size hn
      have hs := nextCodePoint_size _ _ _ hn
      dsimp only at h
      repeat' split at h
      all_goals first
        | (cases h; done)
        | (simp only [Outcome.ok.injEq, Prod.mk.injEq] at h
           obtain ⟨rfl, rfl⟩ := h
           first
             | (simp; omega)
             | (have := ih _ _ _ _ _ (by assumption) (by omega)
                simp only [List.length_append, List.length_drop, List.length_take, List.length_nil,
                  List.length_cons] at *
                omega))

theorem jsonUnescape_bounds (inp : Bytes) (cap c : Nat) (o : Bytes)
    (h : jsonUnescape inp cap = .ok (c, o)) : o.length ≤ cap ∧ c ≤ inp.length := by
  have := unescF_bounds _ _ _ _ _ _ _ h (Nat.zero_le _)
  omega

theorem readContent_fits (inp : Bytes) (cap a : Nat) (r c : Bytes)
    (h : readContent inp cap a = .ok (r, c)) : a + 4 + c.length ≤ cap := by
  unfold readContent at h
  split at h
  · split at h
    · cases h
    · rename_i hcap
      split at h
      · rename_i inlen c' hu
        split at h
        · cases h
        · simp only [Outcome.ok.injEq, Prod.mk.injEq] at h
          obtain ⟨_, rfl⟩ := h
          have := (jsonUnescape_bounds _ _ _ _ hu).1
          omega
      · cases h
      · cases h
  · cases h
  · cases h

/-- what holds of everything `parse_json_event` has stored so far -/
structure EvInv (cap : Nat) (st : EvSt) : Prop where
  id : ∀ v, st.id = some v → v.length = 32
  pk : ∀ v, st.pk = some v → v.length = 32
  sig : ∀ v, st.sig = some v → v.length = 64
  kind : ∀ v, st.kind = some v → v < 65536
  t : ∀ v, st.t = some v → v < 18446744073709551616
  tags : ∀ tb, st.tags = some tb → ∃ ts, tb = encodeTags ts ∧ tagsSize ts ≤ 65535
  content : ∀ c, st.content = some c → ∃ tb, st.tags = some tb ∧
    144 + tb.length + 4 + c.length ≤ 4294967295 ∧ 144 + tb.length + 4 + c.length ≤ cap

theorem EvInv_init (cap : Nat) : EvInv cap {} := by
  constructor <;> intro v h <;> cases h

theorem evMember_inv (st : EvSt) (q : Bytes) (cap : Nat) (st' : EvSt) (r : Bytes)
    (hi : EvInv cap st) (h : evMember st q cap = .ok (st', r)) : EvInv cap st' := by
  obtain ⟨i1, i2, i3, i4, i5, i6, i7⟩ := hi
  unfold evMember at h
  split at h
  · cases h
  · cases h
  · split at h
    · -- id
      split at h
      · cases h
      · split at h
        · split at h
          · rename_i v r' hv
            simp only [Outcome.ok.injEq, Prod.mk.injEq] at h; obtain ⟨rfl, _⟩ := h
            exact ⟨fun w hw => by cases hw; exact readHexField_length _ _ _ _ hv, i2, i3, i4, i5, i6, i7⟩
          · cases h
          · cases h
        · cases h
        · cases h
    · split at h
      · -- sig
        split at h
        · cases h
        · split at h
          · split at h
            · rename_i v r' hv
              simp only [Outcome.ok.injEq, Prod.mk.injEq] at h; obtain ⟨rfl, _⟩ := h
              exact ⟨i1, i2, fun w hw => by cases hw; exact readHexField_length _ _ _ _ hv, i4, i5, i6, i7⟩
            · cases h
            · cases h
          · cases h
          · cases h
      · split at h
        · -- kind
          split at h
          · cases h
          · split at h
            · split at h
              · rename_i v r' hv
                simp only [Outcome.ok.injEq, Prod.mk.injEq] at h; obtain ⟨rfl, _⟩ := h
                exact ⟨i1, i2, i3, fun w hw => by cases hw; exact readKind_bound _ _ _ hv, i5, i6, i7⟩
              · cases h
              · cases h
            · cases h
            · cases h
        · split at h
          · -- tags
            split at h
            · cases h
            · rename_i hnone
              have hnone' : st.tags = none := by
                cases ht : st.tags with
                | none => rfl
                | some _ => simp [ht] at hnone
              have hcnone : st.content = none := by
                cases hc : st.content with
                | none => rfl
                | some c => obtain ⟨tb, htb, _, _⟩ := i7 c hc; rw [hnone'] at htb; cases htb
              split at h
              · split at h
                · rename_i r' tb htb
                  have hspec := readTagsArray_spec _ _ _ _ htb
                  split at h
                  · split at h
                    · rename_i rr c hc
                      simp only [Outcome.ok.injEq, Prod.mk.injEq] at h; obtain ⟨rfl, _⟩ := h
                      have hb := readContent_bound _ _ _ _ _ hc
                      have hf := readContent_fits _ _ _ _ _ hc
                      exact ⟨i1, i2, i3, i4, i5, fun w hw => by cases hw; exact hspec,
                        fun w hw => by cases hw; exact ⟨tb, rfl, by omega, by omega⟩⟩
                    · cases h
                    · cases h
                  · simp only [Outcome.ok.injEq, Prod.mk.injEq] at h; obtain ⟨rfl, _⟩ := h
                    exact ⟨i1, i2, i3, i4, i5, fun w hw => by cases hw; exact hspec,
                      fun w hw => by simp [hcnone] at hw⟩
                · cases h
                · cases h
              · cases h
              · cases h
          · split at h
            · -- pubkey
              split at h
              · cases h
              · split at h
                · split at h
                  · rename_i v r' hv
                    simp only [Outcome.ok.injEq, Prod.mk.injEq] at h; obtain ⟨rfl, _⟩ := h
                    exact ⟨i1, fun w hw => by cases hw; exact readHexField_length _ _ _ _ hv, i3, i4, i5, i6, i7⟩
                  · cases h
                  · cases h
                · cases h
                · cases h
            · split at h
              · -- content
                split at h
                · cases h
                · split at h
                  · split at h
                    · split at h
                      · split at h
                        · simp only [Outcome.ok.injEq, Prod.mk.injEq] at h; obtain ⟨rfl, _⟩ := h
                          exact ⟨i1, i2, i3, i4, i5, i6, i7⟩
                        · cases h
                        · cases h
                      · cases h
                      · cases h
                    · rename_i tb htb
                      split at h
                      · rename_i r' c hc
                        simp only [Outcome.ok.injEq, Prod.mk.injEq] at h; obtain ⟨rfl, _⟩ := h
                        have hb := readContent_bound _ _ _ _ _ hc
                        have hf := readContent_fits _ _ _ _ _ hc
                        exact ⟨i1, i2, i3, i4, i5, i6, fun w hw => by cases hw; exact ⟨tb, htb, by omega, by omega⟩⟩
                      · cases h
                      · cases h
                  · cases h
                  · cases h
              · split at h
                · -- created_at
                  split at h
                  · cases h
                  · split at h
                    · split at h
                      · rename_i v r' hv
                        simp only [Outcome.ok.injEq, Prod.mk.injEq] at h; obtain ⟨rfl, _⟩ := h
                        exact ⟨i1, i2, i3, i4, fun w hw => by cases hw; exact readU64_bound _ _ _ hv, i6, i7⟩
                      · cases h
                      · cases h
                    · cases h
                    · cases h
                · -- unknown member
                  split at h
                  · simp only [Outcome.ok.injEq, Prod.mk.injEq] at h; obtain ⟨rfl, _⟩ := h
                    exact ⟨i1, i2, i3, i4, i5, i6, i7⟩
                  · cases h
                  · cases h

theorem evLoop_inv (fuel : Nat) (st : EvSt) (inp : Bytes) (cap : Nat) (st' : EvSt) (r : Bytes)
    (hi : EvInv cap st) (h : evLoop fuel st inp cap = .ok (st', r)) : EvInv cap st' := by
  induction fuel generalizing st inp with
  | zero => simp [evLoop] at h
  | succ fuel ih =>
    unfold evLoop at h
    split at h
    · rename_i st1 r1 hm
      have h1 := evMember_inv _ _ _ _ _ hi hm
      split at h
      · simp only [Outcome.ok.injEq, Prod.mk.injEq] at h; obtain ⟨rfl, _⟩ := h; exact h1
      · exact ih _ _ h1 h
      · cases h
      · cases h
    · cases h
    · cases h

/-- **a successful `Event::from_json` produces a well-formed event**: the first `n` bytes of the
buffer are the encoding of some event whose parts fit every field, so every accessor, iterator and
serializer reads it back without leaving the value (`eventDecode_encode`), the rest of the buffer is
untouched, and `n` fits the buffer -/
theorem parseEvent_wf (inp buf : Bytes) (c n : Nat) (out : Bytes)
    (h : parseEvent inp buf = .ok (c, n, out)) :
    ∃ e, EventSized e ∧ out = encodeEvent e ++ buf.drop n ∧ n = (encodeEvent e).length ∧
      n ≤ buf.length ∧ c ≤ inp.length := by
  unfold parseEvent at h
  split at h
  · cases h
  · split at h
    · cases h
    · split at h
      · split at h
        · rename_i st rest hl
          have hinv := evLoop_inv _ _ _ _ _ _ (EvInv_init _) hl
          split at h
          · rename_i id pk sig kind t tb cc e1 e2 e3 e4 e5 e6 e7
            dsimp only at h
            simp only [Outcome.ok.injEq, Prod.mk.injEq] at h
            obtain ⟨rfl, rfl, rfl⟩ := h
            obtain ⟨ts, rfl, hfit⟩ := hinv.tags tb e6
            obtain ⟨tb', htb', hcb, hcap⟩ := hinv.content cc e7
            rw [e6] at htb'; cases htb'
            rw [encodeTags_length] at hcb hcap
            let e : EventRec := ⟨id, pk, sig, kind, t, ts, cc⟩
            refine ⟨e, ⟨hinv.id id e1, hinv.pk pk e2, hinv.sig sig e3, hinv.kind kind e4, hinv.t t e5,
              hfit, by simp only [eventSize, e]; omega⟩, rfl, rfl, ?_, by omega⟩
            have hl := encodeEventWith_length id pk sig kind t (encodeTags ts) cc
              (hinv.id id e1) (hinv.pk pk e2) (hinv.sig sig e3)
            rw [hl, encodeTags_length]; unfold eventSize; omega
          · cases h
        · cases h
        · cases h
      · cases h
      · cases h

end Pocket