import Pocket.Lemmas.RoundTrip
import Pocket.Lemmas.Layout
/- The NIP-01 serialization that is hashed determines the hashed fields (C08): two well-formed
events with the same serialization have the same pubkey, created_at, kind, tags and content.
The parsers of the model serve as the inverse. -/
namespace Pocket

theorem hexOf_injective (a b : Bytes) (ha : ∀ x ∈ a, x < 256) (hb : ∀ x ∈ b, x < 256)
    (h : hexOf a = hexOf b) : a = b := by
  have h1 := unhexPairs_hexOf a ha
  have h2 := unhexPairs_hexOf b hb
  rw [h, h2] at h1
  simp only [Outcome.ok.injEq] at h1
  exact h1.symm

theorem encodeTags_injective (a b : TagsRec) (ha : tagsSize a ≤ 65535) (hb : tagsSize b ≤ 65535)
    (h : encodeTags a = encodeTags b) : a = b := by
  have h1 := tagsDecode_encode a ha []
  have h2 := tagsDecode_encode b hb []
  rw [h, h2] at h1
  simp only [Outcome.ok.injEq] at h1
  exact h1.symm

/-- the serialization hashed by `verify` / `sign_new` is injective on well-formed events -/
theorem canon_injective (e₁ e₂ : EventRec) (s₁ : EventSized e₁) (s₂ : EventSized e₂)
    (b₁ : ∀ x ∈ e₁.pubkey, x < 256) (b₂ : ∀ x ∈ e₂.pubkey, x < 256)
    (t₁ : TagsUtf8 e₁.tags) (t₂ : TagsUtf8 e₂.tags) (u₁ : IsUtf8 e₁.content) (u₂ : IsUtf8 e₂.content)
    (c : Bytes) (h₁ : canon e₁ = .ok c) (h₂ : canon e₂ = .ok c) :
    e₁.pubkey = e₂.pubkey ∧ e₁.createdAt = e₂.createdAt ∧ e₁.kind = e₂.kind ∧ e₁.tags = e₂.tags ∧
      e₁.content = e₂.content := by
  unfold canon at h₁ h₂
  split at h₁
  · rename_i ec₁ hec₁
    split at h₁
    · rename_i tj₁ htj₁
      split at h₂
      · rename_i ec₂ hec₂
        split at h₂
        · rename_i tj₂ htj₂
          simp only [Outcome.ok.injEq] at h₁ h₂
          have h := h₁.trans h₂.symm
          simp only [List.append_assoc, List.cons_append, List.nil_append, List.cons.injEq, true_and] at h
          -- pubkey
          have hl : (hexOf e₁.pubkey).length = (hexOf e₂.pubkey).length := by
            rw [hexOf_length, hexOf_length, s₁.pk, s₂.pk]
          obtain ⟨hp, h⟩ := List.append_inj h hl
          have hpk := hexOf_injective _ _ b₁ b₂ hp
          simp only [List.cons.injEq, true_and] at h
          -- created_at
          have r1 := readU64_decOf e₁.createdAt (44 :: (decOf e₁.kind ++ 44 :: (tj₁ ++ 44 :: 34 :: (ec₁ ++ [34, 93])))) s₁.t (noLeadingDigit_44 _)
          have r2 := readU64_decOf e₂.createdAt (44 :: (decOf e₂.kind ++ 44 :: (tj₂ ++ 44 :: 34 :: (ec₂ ++ [34, 93])))) s₂.t (noLeadingDigit_44 _)
          rw [h, r2] at r1
          simp only [Outcome.ok.injEq, Prod.mk.injEq, List.cons.injEq, true_and] at r1
          obtain ⟨ht, h⟩ := r1
          -- kind
          have k1 := readU64_decOf e₁.kind (44 :: (tj₁ ++ 44 :: 34 :: (ec₁ ++ [34, 93]))) (by have := s₁.kind; omega) (noLeadingDigit_44 _)
          have k2 := readU64_decOf e₂.kind (44 :: (tj₂ ++ 44 :: 34 :: (ec₂ ++ [34, 93]))) (by have := s₂.kind; omega) (noLeadingDigit_44 _)
          rw [h, k1] at k2
          simp only [Outcome.ok.injEq, Prod.mk.injEq, List.cons.injEq, true_and] at k2
          obtain ⟨hk, h⟩ := k2
          -- tags
          have g1 := readTagsArray_tagsJson e₁.tags t₁ tj₁ (44 :: 34 :: (ec₁ ++ [34, 93])) htj₁ 65535 s₁.tags s₁.tags
          have g2 := readTagsArray_tagsJson e₂.tags t₂ tj₂ (44 :: 34 :: (ec₂ ++ [34, 93])) htj₂ 65535 s₂.tags s₂.tags
          rw [h, g2] at g1
          simp only [Outcome.ok.injEq, Prod.mk.injEq, List.cons.injEq, true_and] at g1
          obtain ⟨h, htags⟩ := g1
          have htg := encodeTags_injective _ _ s₂.tags s₁.tags htags
          -- content
          have c1 := unescape_escape e₁.content ec₁ [93] (e₁.content.length + e₂.content.length) u₁ hec₁ (by omega)
          have c2 := unescape_escape e₂.content ec₂ [93] (e₁.content.length + e₂.content.length) u₂ hec₂ (by omega)
          have h' : ec₂ ++ [34, 93] = ec₁ ++ [34, 93] := h
          have e1 : ec₁ ++ 34 :: [93] = ec₁ ++ [34, 93] := rfl
          have e2 : ec₂ ++ 34 :: [93] = ec₂ ++ [34, 93] := rfl
          rw [e1] at c1
          rw [e2, h', c1] at c2
          simp only [Outcome.ok.injEq, Prod.mk.injEq] at c2
          exact ⟨hpk, ht.symm, hk, htg.symm, c2.2⟩
        · cases h₂
        · cases h₂
      · cases h₂
      · cases h₂
    · cases h₁
    · cases h₁
  · cases h₁
  · cases h₁

end Pocket
