import Pocket.Model.Store
import Pocket.Lemmas.RoundTrip
import Pocket.Lemmas.FilterRT
/- `Addr::try_from_bytes` reads `kind:pubkey-hex:d` back exactly (C10, C11): the address a deletion
request names in an `a` tag is the address that gets marked. -/
namespace Pocket

theorem splitOnColon_no58 (a : Bytes) (h : ∀ b ∈ a, b ≠ 58) (rest : Bytes) :
    splitOnColon (a ++ 58 :: rest) = (a, some rest) := by
  induction a with
  | nil => simp [splitOnColon]
  | cons b a ih =>
    have hb := h b (by simp)
    simp only [List.cons_append, splitOnColon, hb, if_false]
    rw [ih (fun x hx => h x (by simp [hx]))]

theorem parseDigitsU16_digits (f n : Nat) (hf : n < f) (acc : Nat) (hacc : acc = 0) :
    parseDigitsU16 (decDigits f n) acc = if n ≤ 65535 then some n else none := by
  subst hacc
  -- generalised: reading the digits of n after an accumulator a gives a * 10^k + n; we only need a = 0,
  -- and prove it through the suffix form below
  have key : ∀ (f n : Nat), n < f → ∀ (rest : Bytes) (k : Nat → Option Nat),
      (∀ acc, parseDigitsU16 rest acc = k acc) →
      parseDigitsU16 (decDigits f n ++ rest) 0 = if n ≤ 65535 then k n else none := by
    intro f
    induction f with
    | zero => intro n hn; omega
    | succ f ih =>
      intro n hn rest k hk
      unfold decDigits
      by_cases h10 : n < 10
      · simp only [h10, if_true, List.cons_append, List.nil_append, parseDigitsU16]
        have hd : parseDigitsU16.isDigitB (48 + n) = true := by
          unfold parseDigitsU16.isDigitB; simp; omega
        simp only [hd, if_true]
        have : ¬ (0 * 10 + (48 + n - 48) > 65535) := by omega
        simp only [this, if_false]
        have e : 0 * 10 + (48 + n - 48) = n := by omega
        rw [e, hk n]
        have : n ≤ 65535 := by omega
        simp [this]
      · simp only [h10, if_false, List.append_assoc]
        have hrec := ih (n / 10) (by omega) ([48 + n % 10] ++ rest)
          (fun acc => if acc * 10 + (n % 10) > 65535 then none else k (acc * 10 + n % 10)) (by
            intro acc
            simp only [List.cons_append, List.nil_append, parseDigitsU16]
            have hd : parseDigitsU16.isDigitB (48 + n % 10) = true := by
              unfold parseDigitsU16.isDigitB; simp; omega
            simp only [hd, if_true]
            have e : 48 + n % 10 - 48 = n % 10 := by omega
            rw [e]
            split
            · rfl
            · exact hk _)
        rw [hrec]
        by_cases hn16 : n ≤ 65535
        · have h1 : n / 10 ≤ 65535 := by omega
          have h2 : ¬ (n / 10 * 10 + n % 10 > 65535) := by omega
          have e : n / 10 * 10 + n % 10 = n := by omega
          have h3 : ¬ n > 65535 := by omega
          simp only [h1, if_true, e, hn16, h3, if_false]
        · by_cases h1 : n / 10 ≤ 65535
          · have e : n / 10 * 10 + n % 10 = n := by omega
            have h2 : n > 65535 := by omega
            simp only [h1, if_true, e, h2, hn16, if_false]
          · simp only [h1, if_false, hn16]
  have := key f n hf [] (fun acc => some acc) (fun acc => rfl)
  simpa using this

theorem parseU16_decOf (k : Nat) (hk : k < 65536) : parseU16 (decOf k) = some k := by
  obtain ⟨d, ds, hd, h1, h2⟩ := decDigits_head (k + 1) k (by omega)
  unfold parseU16 decOf
  rw [hd]
  simp only [show d ≠ 43 from by omega, if_false]
  rw [← hd, parseDigitsU16_digits (k + 1) k (by omega) 0 rfl]
  have : k ≤ 65535 := by omega
  simp [this]

theorem hexOf_no58 (v : Bytes) : ∀ b ∈ hexOf v, b ≠ 58 := by
  induction v with
  | nil => intro b hb; cases hb
  | cons x v ih =>
    intro b hb
    simp only [hexOf, List.mem_cons] at hb
    have hx : ∀ d, d < 16 → hexDigitLower d ≠ 58 := by
      intro d hd; unfold hexDigitLower; split <;> omega
    rcases hb with rfl | rfl | hb
    · exact hx _ (Nat.mod_lt _ (by omega))
    · exact hx _ (Nat.mod_lt _ (by omega))
    · exact ih b hb

/-- the text `kind:pubkey:d` of an address reads back as that address, whatever bytes `d` holds
(including colons) -/
theorem parseAddr_text (k : Nat) (pk d : Bytes) (hk : k < 65536) (hpk : pk.length = 32)
    (hb : ∀ b ∈ pk, b < 256) :
    parseAddr (decOf k ++ 58 :: (hexOf pk ++ 58 :: d)) = some (k, pk, d) := by
  have hdig : ∀ b ∈ decOf k, b ≠ 58 := by
    intro b hb'
    have := decDigits_digits _ _ b hb'
    omega
  unfold parseAddr
  rw [splitOnColon_no58 (decOf k) hdig]
  simp only [parseU16_decOf k hk]
  rw [splitOnColon_no58 (hexOf pk) (hexOf_no58 pk)]
  simp only []
  unfold readHex
  have hl := hexOf_length pk
  rw [if_neg (by simp [hl, hpk]), unhexPairs_hexOf pk hb]

end Pocket
