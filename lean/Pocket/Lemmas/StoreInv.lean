import Pocket.Model.Store
/- invariants of the store model, preserved by every operation -/
namespace Pocket

theorem removeId_sublist (live : List SEv) (id : Bytes) : (removeId live id).Sublist live :=
  List.filter_sublist
theorem removeReplaceable_sublist (c t : List SEv) (a : Bytes) (k u : Nat) :
    (removeReplaceable c t a k u).Sublist t := List.filter_sublist
theorem removeParam_sublist (c t : List SEv) (k : Nat) (a d : Bytes) (u : Nat) :
    (removeParam c t k a d u).Sublist t := List.filter_sublist

theorem delE_sublist (c : List SEv) (req : EventRec) (id : Bytes) (st st' : DelSt)
    (h : delE c req id st = .ok st') : st'.live.Sublist st.live := by
  unfold delE at h
  repeat' split at h
  all_goals first
    | (cases h; done)
    | (simp only [DelOut.ok.injEq] at h; subst h; first | exact List.Sublist.refl _ | exact removeId_sublist _ _)

theorem removeAt_sublist (c t : List SEv) (k : Nat) (a d : Bytes) (u : Nat) :
    (removeAt c t k a d u).Sublist t := by
  unfold removeAt
  repeat' split
  · exact removeReplaceable_sublist _ _ _ _ _
  · exact removeParam_sublist _ _ _ _ _ _
  · exact List.Sublist.refl _

theorem delA_sublist (c : List SEv) (req : EventRec) (k : Nat) (a d : Bytes) (st st' : DelSt)
    (h : delA c req k a d st = .ok st') : st'.live.Sublist st.live := by
  unfold delA at h
  split at h
  · cases h
  · split at h
    · cases h
    · simp only [DelOut.ok.injEq] at h; subst h; exact removeAt_sublist _ _ _ _ _ _

theorem delTag_sublist (c : List SEv) (req : EventRec) (tag : List Bytes) (st st' : DelSt)
    (h : delTag c req tag st = .ok st') : st'.live.Sublist st.live := by
  unfold delTag at h
  repeat' split at h
  all_goals first
    | exact delE_sublist _ _ _ _ _ h
    | exact delA_sublist _ _ _ _ _ _ _ h
    | (simp only [DelOut.ok.injEq] at h; subst h; exact List.Sublist.refl _)

/-- deletion handling only ever removes index entries -/
theorem handleDeletion_sublist (c : List SEv) (req : EventRec) (tags : TagsRec) (st st' : DelSt)
    (h : handleDeletion c req tags st = .ok st') : st'.live.Sublist st.live := by
  induction tags generalizing st with
  | nil => simp [handleDeletion] at h; subst h; exact List.Sublist.refl _
  | cons tag rest ih =>
    unfold handleDeletion at h
    split at h
    · rename_i st1 h1
      exact (ih _ h).trans (delTag_sublist _ _ _ _ _ h1)
    · cases h
    · cases h

theorem preRemove_sublist (c : List SEv) (e : EventRec) : (preRemove c e).1.Sublist c := by
  unfold preRemove
  repeat' split
  all_goals first
    | exact List.Sublist.refl _
    | exact removeReplaceable_sublist _ _ _ _ _
    | exact removeParam_sublist _ _ _ _ _ _

/-- the marker consulted for an event is the marker of its own address -/
theorem addrMarker_eq (db : Db) (e : EventRec) :
    delByAddr.addrMarker db e = (addrOf e).bind (delAddrGet db.delAddrs) := by
  unfold delByAddr.addrMarker addrOf
  by_cases h1 : isReplaceable e.kind = true
  · simp [h1]
  · simp only [h1, Bool.false_eq_true, if_false]
    by_cases h2 : isParamReplaceable e.kind = true
    · simp only [h2, if_true]
      cases getValue e.tags KEY_D <;> simp
    · simp [h2]

theorem refusal_cases (db : Db) (e : EventRec) (r : Reply) (h : refusal db e = some r) :
    r = .duplicate ∨ r = .deleted := by
  unfold refusal at h
  repeat' split at h
  all_goals first
    | (simp only [Option.some.injEq] at h; subst h; simp)
    | cases h

/-- the six ways `store_event` can go -/
theorem storeEvent_cases (s : Store) (e : EventRec) :
    (∃ r, refusal s.db e = some r ∧ (∀ off, r ≠ .ok off) ∧ storeEvent s e = (r, s)) ∨
    (storeEvent s e = (.replaced, s)) ∨
    (e.kind ≠ 5 ∧ refusal s.db e = none ∧ storeEvent s e = (.ok (align8 s.end), commitPlain s e)) ∨
    (e.kind = 5 ∧ refusal s.db e = none ∧ ∃ st, handleDeletion s.db.live e e.tags ⟨txnLive s e, s.db.delIds, s.db.delAddrs⟩ = .ok st ∧
        storeEvent s e = (.ok (align8 s.end), commitDel s e st)) ∨
    (storeEvent s e = (.invalidDelete, appendLog s e)) ∨
    (storeEvent s e = (.other, appendLog s e)) := by
  unfold storeEvent
  cases hr : refusal s.db e with
  | some r =>
    refine Or.inl ⟨r, rfl, ?_, rfl⟩
    intro off hoff
    subst hoff
    rcases refusal_cases _ _ _ hr with h | h <;> cases h
  | none =>
    dsimp only
    by_cases hp : (preRemove s.db.live e).2 = true
    · rw [if_pos hp]; exact Or.inr (Or.inl rfl)
    · rw [if_neg hp]
      by_cases h5 : e.kind = 5
      · rw [if_pos h5]
        cases hd : handleDeletion s.db.live e e.tags ⟨txnLive s e, s.db.delIds, s.db.delAddrs⟩ with
        | ok st => exact Or.inr (Or.inr (Or.inr (Or.inl ⟨h5, rfl, st, rfl, rfl⟩)))
        | invalid => exact Or.inr (Or.inr (Or.inr (Or.inr (Or.inl rfl))))
        | lmdbErr => exact Or.inr (Or.inr (Or.inr (Or.inr (Or.inr rfl))))
      · rw [if_neg h5]
        exact Or.inr (Or.inr (Or.inl ⟨h5, rfl, rfl⟩))

theorem txnLive_sublist (s : Store) (e : EventRec) :
    (txnLive s e).Sublist (s.db.live ++ [⟨align8 s.end, e⟩]) := by
  have hp := preRemove_sublist s.db.live e
  unfold txnLive
  split
  · exact hp.trans (List.sublist_append_left _ _)
  · exact List.Sublist.append hp (List.Sublist.refl _)

/-- what `store_event` leaves indexed is a sublist of (what was indexed) ++ [the new event] -/
theorem storeEvent_live_sublist (s : Store) (e : EventRec) :
    ((storeEvent s e).2.db.live).Sublist (s.db.live ++ [⟨align8 s.end, e⟩]) := by
  rcases storeEvent_cases s e with ⟨r, _, _, h⟩ | h | ⟨_, _, h⟩ | ⟨_, _, st, hd, h⟩ | h | h <;> rw [h]
  · exact List.sublist_append_left _ _
  · exact List.sublist_append_left _ _
  · exact txnLive_sublist s e
  · exact (handleDeletion_sublist _ _ _ _ _ hd).trans (txnLive_sublist s e)
  · exact List.sublist_append_left _ _
  · exact List.sublist_append_left _ _

/-- the event map only grows, by appending at the aligned end -/
theorem storeEvent_log (s : Store) (e : EventRec) :
    ((storeEvent s e).2.log = s.log ∧ (storeEvent s e).2.end = s.end) ∨
    ((storeEvent s e).2.log = s.log ++ [⟨align8 s.end, e⟩] ∧
      (storeEvent s e).2.end = align8 s.end + eventLen e) := by
  rcases storeEvent_cases s e with ⟨r, _, _, h⟩ | h | ⟨_, _, h⟩ | ⟨_, _, st, hd, h⟩ | h | h <;> rw [h]
  · exact Or.inl ⟨rfl, rfl⟩
  · exact Or.inl ⟨rfl, rfl⟩
  · exact Or.inr ⟨rfl, rfl⟩
  · exact Or.inr ⟨rfl, rfl⟩
  · exact Or.inr ⟨rfl, rfl⟩
  · exact Or.inr ⟨rfl, rfl⟩

/-- a successful store appended the event at the offset it returned -/
theorem storeEvent_ok_log (s : Store) (e : EventRec) (off : Nat) (h : (storeEvent s e).1 = .ok off) :
    off = align8 s.end ∧ (storeEvent s e).2.log = s.log ++ [⟨off, e⟩] ∧
      (storeEvent s e).2.end = off + eventLen e := by
  rcases storeEvent_cases s e with ⟨r, _, hr, h'⟩ | h' | ⟨_, _, h'⟩ | ⟨_, _, st, hd, h'⟩ | h' | h' <;> rw [h'] at h ⊢
  · exact absurd h (hr off)
  · cases h
  · simp only [Reply.ok.injEq] at h; subst h; exact ⟨rfl, rfl, rfl⟩
  · simp only [Reply.ok.injEq] at h; subst h; exact ⟨rfl, rfl, rfl⟩
  · cases h
  · cases h

/-- a store that does not return `ok` leaves every table as it was -/
theorem storeEvent_fail_db (s : Store) (e : EventRec) (h : ∀ off, (storeEvent s e).1 ≠ .ok off) :
    (storeEvent s e).2.db = s.db := by
  rcases storeEvent_cases s e with ⟨r, _, hr, h'⟩ | h' | ⟨_, _, h'⟩ | ⟨_, _, st, hd, h'⟩ | h' | h' <;> rw [h'] at h ⊢
  · exact absurd rfl (h _)
  · exact absurd rfl (h _)
  · rfl
  · rfl

/-! ### the invariant -/

theorem align8_ge (n : Nat) : n ≤ align8 n := by unfold align8; split <;> omega
theorem align8_mod (n : Nat) : align8 n % 8 = 0 := by unfold align8; split <;> omega

theorem eventLen_pos (e : EventRec) : 0 < eventLen e := by unfold eventLen eventSize; omega

structure Inv (s : Store) : Prop where
  liveInLog : ∀ x ∈ s.db.live, x ∈ s.log
  logSorted : s.log.Pairwise (fun a b => a.off < b.off)
  logBound : ∀ x ∈ s.log, 8 ≤ x.off ∧ x.off % 8 = 0 ∧ x.off + eventLen x.e ≤ s.end
  liveIds : (s.db.live.map (·.e.id)).Nodup
  endGe : 8 ≤ s.end

theorem Inv_init : Inv {} := by
  constructor <;> simp

theorem findById_none_not_mem (live : List SEv) (id : Bytes) (h : findById live id = none) :
    id ∉ live.map (·.e.id) := by
  unfold findById at h
  intro hm
  obtain ⟨x, hx, rfl⟩ := List.mem_map.mp hm
  have := List.find?_eq_none.mp h x hx
  simp at this

theorem refusal_none_fresh (db : Db) (e : EventRec) (h : refusal db e = none) :
    e.id ∉ db.live.map (·.e.id) := by
  unfold refusal at h
  split at h
  · cases h
  · rename_i hf
    apply findById_none_not_mem
    cases hfi : findById db.live e.id with
    | none => rfl
    | some x => simp [hfi] at hf

theorem Inv_appendLog (s : Store) (e : EventRec) (hi : Inv s) :
    (appendLog s e).log.Pairwise (fun a b => a.off < b.off) ∧
    (∀ x ∈ (appendLog s e).log, 8 ≤ x.off ∧ x.off % 8 = 0 ∧ x.off + eventLen x.e ≤ (appendLog s e).end) ∧
    8 ≤ (appendLog s e).end := by
  have hge := align8_ge s.end
  have hmod := align8_mod s.end
  have hpos := eventLen_pos e
  refine ⟨?_, ?_, ?_⟩
  · simp only [appendLog]
    rw [List.pairwise_append]
    refine ⟨hi.logSorted, by simp, ?_⟩
    intro a ha b hb
    simp only [List.mem_singleton] at hb; subst hb
    have := hi.logBound a ha
    have := eventLen_pos a.e
    show a.off < align8 s.end
    omega
  · intro x hx
    simp only [appendLog, List.mem_append, List.mem_singleton] at hx ⊢
    rcases hx with hx | rfl
    · have := hi.logBound x hx; omega
    · have := hi.endGe; exact ⟨by show 8 ≤ align8 s.end; omega, hmod, Nat.le_refl _⟩
  · have := hi.endGe; simp only [appendLog]; omega

theorem nodup_of_sublist_append (live live' : List SEv) (sev : SEv)
    (hs : live'.Sublist (live ++ [sev])) (hn : (live.map (·.e.id)).Nodup)
    (hf : sev.e.id ∉ live.map (·.e.id)) : (live'.map (·.e.id)).Nodup := by
  have h1 : ((live ++ [sev]).map (·.e.id)).Nodup := by
    rw [List.map_append, List.nodup_append]
    refine ⟨hn, by simp, ?_⟩
    intro a ha b hb
    simp only [List.map_cons, List.map_nil, List.mem_singleton] at hb
    subst hb
    intro hab; subst hab; exact hf ha
  exact List.Pairwise.sublist (hs.map _) h1

theorem Inv_storeEvent (s : Store) (e : EventRec) (hi : Inv s) : Inv (storeEvent s e).2 := by
  have hsub := storeEvent_live_sublist s e
  obtain ⟨ha1, ha2, ha3⟩ := Inv_appendLog s e hi
  rcases storeEvent_cases s e with ⟨r, _, _, h⟩ | h | ⟨_, hr, h⟩ | ⟨_, hr, st, hd, h⟩ | h | h <;> rw [h] at hsub ⊢
  · exact hi
  · exact hi
  · refine ⟨?_, ha1, ha2, ?_, ha3⟩
    · intro x hx
      have := hsub.subset hx
      simp only [commitPlain, appendLog, List.mem_append, List.mem_singleton] at this ⊢
      rcases this with h1 | h1
      · exact Or.inl (hi.liveInLog x h1)
      · exact Or.inr h1
    · exact nodup_of_sublist_append _ _ _ hsub hi.liveIds (refusal_none_fresh _ _ hr)
  · refine ⟨?_, ha1, ha2, ?_, ha3⟩
    · intro x hx
      have := hsub.subset hx
      simp only [commitDel, appendLog, List.mem_append, List.mem_singleton] at this ⊢
      rcases this with h1 | h1
      · exact Or.inl (hi.liveInLog x h1)
      · exact Or.inr h1
    · exact nodup_of_sublist_append _ _ _ hsub hi.liveIds (refusal_none_fresh _ _ hr)
  · refine ⟨?_, ha1, ha2, hi.liveIds, ha3⟩
    intro x hx
    simp only [appendLog, List.mem_append]
    exact Or.inl (hi.liveInLog x hx)
  · refine ⟨?_, ha1, ha2, hi.liveIds, ha3⟩
    intro x hx
    simp only [appendLog, List.mem_append]
    exact Or.inl (hi.liveInLog x hx)

theorem Inv_of_live_sublist (s : Store) (live' : List SEv) (hi : Inv s) (hs : live'.Sublist s.db.live) :
    Inv { s with db := { s.db with live := live' } } :=
  ⟨fun x hx => hi.liveInLog x (hs.subset hx), hi.logSorted, hi.logBound,
   List.Pairwise.sublist (hs.map _) hi.liveIds, hi.endGe⟩

theorem Inv_removeEvent (s : Store) (id : Bytes) (hi : Inv s) : Inv (removeEvent s id) :=
  Inv_of_live_sublist s _ hi (removeId_sublist _ _)

theorem removeAll_sublist (evs : List SEv) (live : List SEv) : (removeAll live evs).Sublist live := by
  unfold removeAll
  induction evs generalizing live with
  | nil => exact List.Sublist.refl _
  | cons x evs ih => exact (ih _).trans (removeId_sublist _ _)

theorem removeFound_sublist (live : List SEv) (r : FindReply) : (removeFound live r).Sublist live := by
  cases r with
  | ok evs red => exact removeAll_sublist _ _
  | scraper => exact List.Sublist.refl _

theorem vanishAuthored_sublist (live : List SEv) (pk : Bytes) : (vanishAuthored live pk).Sublist live :=
  removeFound_sublist _ _

theorem vanishWraps_sublist (live : List SEv) (pk : Bytes) : (vanishWraps live pk).Sublist live :=
  removeFound_sublist _ _

theorem vanish_sublist (s : Store) (pk : Bytes) : (vanish s pk).db.live.Sublist s.db.live :=
  (vanishWraps_sublist _ _).trans (vanishAuthored_sublist _ _)

theorem Inv_vanish (s : Store) (pk : Bytes) (hi : Inv s) : Inv (vanish s pk) := by
  have := Inv_of_live_sublist s _ hi (vanish_sublist s pk)
  unfold vanish at this ⊢
  exact this

/-! ### rebuild -/

theorem insertById_perm (x : SEv) (l : List SEv) : (insertById x l).Perm (x :: l) := by
  induction l with
  | nil => exact List.Perm.refl _
  | cons y ys ih =>
    unfold insertById
    split
    · exact List.Perm.refl _
    · exact (List.Perm.cons y ih).trans (List.Perm.swap x y ys)

theorem sortById_perm (l : List SEv) : (l.foldr insertById []).Perm l := by
  induction l with
  | nil => exact List.Perm.refl _
  | cons x xs ih => exact (insertById_perm x _).trans (List.Perm.cons x ih)

theorem relog_events (xs : List SEv) (e : Nat) : (relog xs e).1.map (·.e) = xs.map (·.e) := by
  induction xs generalizing e with
  | nil => rfl
  | cons x xs ih => simp [relog, ih]

theorem relog_spec (xs : List SEv) (e : Nat) (he : 8 ≤ e) :
    (∀ y ∈ (relog xs e).1, e ≤ y.off ∧ y.off % 8 = 0 ∧ y.off + eventLen y.e ≤ (relog xs e).2) ∧
    (relog xs e).1.Pairwise (fun a b => a.off < b.off) ∧ e ≤ (relog xs e).2 := by
  induction xs generalizing e with
  | nil => simp [relog]
  | cons x xs ih =>
    have hge := align8_ge e
    have hmod := align8_mod e
    have hpos := eventLen_pos x.e
    obtain ⟨i1, i2, i3⟩ := ih (align8 e + eventLen x.e) (by omega)
    refine ⟨?_, ?_, ?_⟩
    · intro y hy
      simp only [relog, List.mem_cons] at hy ⊢
      rcases hy with rfl | hy
      · exact ⟨hge, hmod, i3⟩
      · have := i1 y hy; omega
    · simp only [relog, List.pairwise_cons]
      refine ⟨?_, i2⟩
      intro y hy
      have := i1 y hy
      show align8 e < y.off
      omega
    · simp only [relog]; omega

theorem Inv_rebuild (s : Store) (hi : Inv s) : Inv (rebuild s) := by
  unfold rebuild
  dsimp only
  obtain ⟨h1, h2, h3⟩ := relog_spec (s.db.live.foldr insertById []) 8 (Nat.le_refl _)
  refine ⟨fun x hx => hx, h2, fun x hx => ?_, ?_, h3⟩
  · have := h1 x hx; omega
  · have hm : (relog (s.db.live.foldr insertById []) 8).1.map (·.e.id) =
        ((s.db.live.foldr insertById []).map (·.e)).map (·.id) := by
      rw [← relog_events (s.db.live.foldr insertById []) 8, List.map_map]; rfl
    rw [hm]
    have hp := ((sortById_perm s.db.live).map (·.e)).map (·.id)
    have : (s.db.live.map (·.e)).map (·.id) = s.db.live.map (·.e.id) := by simp
    rw [this] at hp
    exact (List.Perm.nodup_iff hp).mpr hi.liveIds

theorem Inv_step (s : Store) (op : Op) (hi : Inv s) : Inv (step s op) := by
  cases op with
  | store e => exact Inv_storeEvent s e hi
  | remove id => exact Inv_removeEvent s id hi
  | vanish pk => exact Inv_vanish s pk hi
  | reopen => exact hi
  | rebuild => exact Inv_rebuild s hi

theorem Inv_run (s : Store) (ops : List Op) (hi : Inv s) : Inv (run s ops) := by
  induction ops generalizing s with
  | nil => exact hi
  | cons op ops ih => exact ih _ (Inv_step s op hi)

end Pocket
