import Pocket.Lemmas.Ws
/- Skipping of unknown members (`burn_key_and_value`, `burn_value`, `burn_array`, `burn_object`,
`burn_string`, `burn_number`): every JSON value text — strings with any escapes, numbers, the three
literals, arrays and objects nested at most 64 deep, with any whitespace — is consumed exactly,
whatever follows it.  The grammar is given as an inductive predicate on byte strings (`JT`), so the
theorem quantifies over every text of the grammar, not over a rendering function's range. -/
namespace Pocket

/-- the body of a JSON string: bytes other than `"` and `\`, or a backslash followed by any byte
(this covers every legal escape, `\uXXXX` included: the four hex digits are ordinary bytes) -/
inductive StrBody : Bytes → Prop
  | nil : StrBody []
  | raw (b : Nat) (r : Bytes) : b ≠ 34 → b ≠ 92 → StrBody r → StrBody (b :: r)
  | esc (c : Nat) (r : Bytes) : StrBody r → StrBody (92 :: c :: r)

theorem burnString_body (s R : Bytes) (h : StrBody s) : burnString (s ++ 34 :: R) = .ok R := by
  induction h with
  | nil =>
    cases R with
    | nil => simp [burnString]
    | cons c r => simp [burnString]
  | raw b r h1 h2 _ ih =>
    obtain ⟨c, x, hx⟩ : ∃ c x, r ++ 34 :: R = c :: x := by
      cases r with
      | nil => exact ⟨34, R, rfl⟩
      | cons c r' => exact ⟨c, r' ++ 34 :: R, rfl⟩
    rw [List.cons_append, hx, burnString, if_neg h1, if_neg h2, ← hx]
    exact ih
  | esc c r _ ih =>
    simp only [List.cons_append]
    rw [burnString, if_neg (by decide), if_pos rfl]
    exact ih

/-- what may follow a number: anything that `burn_number` does not take for part of it -/
def HeadNotNum (R : Bytes) : Prop := ∀ b r, R = b :: r → numberChars.contains b = false

/-- a number text: `-` or a digit, then characters of JSON's number grammar (digits `.` `e` `E` `+` `-`) -/
def NumTxt (n : Bytes) : Prop :=
  ∃ b r, n = b :: r ∧ (b = 45 ∨ isDigit b = true) ∧ ∀ c ∈ r, numberChars.contains c = true

theorem burnNumber_all (r R : Bytes) (h : ∀ c ∈ r, numberChars.contains c = true) (hR : HeadNotNum R) :
    burnNumber (r ++ R) = R := by
  induction r with
  | nil =>
    cases R with
    | nil => rfl
    | cons b x => simp only [List.nil_append, burnNumber, hR b x rfl]; rfl
  | cons c r ih =>
    simp only [List.cons_append, burnNumber, h c (by simp), if_true]
    exact ih (fun y hy => h y (by simp [hy]))

/-- separators between array elements and object members: the code eats whitespace and commas in
any mix; JSON's `ws , ws` is the special case -/
def SepWs (w : Bytes) : Prop := ∀ b ∈ w, isWs b = true ∨ b = 44

theorem eatWsC_sepws (w : Bytes) (b : Nat) (x : Bytes) (hw : SepWs w) (h1 : isWs b = false) (h2 : b ≠ 44) :
    eatWsC (w ++ b :: x) = b :: x := by
  induction w with
  | nil => exact eatWsC_keep b x h1 h2
  | cons c w ih =>
    have hc := hw c (by simp)
    have : (isWs c || c == 44) = true := by
      rcases hc with h | h
      · simp [h]
      · simp [h]
    simp only [List.cons_append, eatWsC, this, if_true]
    exact ih (fun y hy => hw y (by simp [hy]))

inductive JK where
  | val | elems | members

/-- `JT .val d t`: `t` is a JSON value whose arrays and objects nest at most `d` deep;
`JT .elems d t`: `t` is what follows an array's `[` — elements (values of depth ≤ d) and the closing `]`;
`JT .members d t`: what follows an object's `{` — members and the closing `}`. -/
inductive JT : JK → Nat → Bytes → Prop
  | str {d : Nat} (s : Bytes) : StrBody s → JT .val d (34 :: (s ++ [34]))
  | num {d : Nat} (n : Bytes) : NumTxt n → JT .val d n
  | tru {d : Nat} : JT .val d [116, 114, 117, 101]
  | fls {d : Nat} : JT .val d [102, 97, 108, 115, 101]
  | nul {d : Nat} : JT .val d [110, 117, 108, 108]
  | arr {d : Nat} (t : Bytes) : JT .elems d t → JT .val (d + 1) (91 :: t)
  | obj {d : Nat} (t : Bytes) : JT .members d t → JT .val (d + 1) (123 :: t)
  | eEnd {d : Nat} (w : Bytes) : SepWs w → JT .elems d (w ++ [93])
  | eCons {d : Nat} (w v rest : Bytes) : SepWs w → JT .val d v → JT .elems d rest → HeadNotNum rest →
      JT .elems d (w ++ (v ++ rest))
  | mEnd {d : Nat} (w : Bytes) : SepWs w → JT .members d (w ++ [125])
  | mCons {d : Nat} (w k w1 w2 v rest : Bytes) : SepWs w → StrBody k → AllWs w1 → AllWs w2 →
      JT .val d v → JT .members d rest → HeadNotNum rest →
      JT .members d (w ++ 34 :: (k ++ 34 :: (w1 ++ 58 :: (w2 ++ (v ++ rest)))))

/-- a value text is not empty and starts with none of: whitespace, `,`, `]`, `}`, `:` -/
theorem JT.val_head {d : Nat} {t : Bytes} (h : JT .val d t) :
    ∃ b r, t = b :: r ∧ isWs b = false ∧ b ≠ 44 ∧ b ≠ 93 ∧ b ≠ 125 := by
  cases h with
  | str s _ => exact ⟨34, _, rfl, by decide, by decide, by decide, by decide⟩
  | num n hn =>
    obtain ⟨b, r, rfl, hb, _⟩ := hn
    refine ⟨b, r, rfl, ?_, ?_, ?_, ?_⟩ <;> rcases hb with rfl | hb <;>
      first | decide | (unfold isDigit at hb; unfold isWs; simp at hb ⊢; omega) | (unfold isDigit at hb; simp at hb; omega)
  | tru => exact ⟨116, _, rfl, by decide, by decide, by decide, by decide⟩
  | fls => exact ⟨102, _, rfl, by decide, by decide, by decide, by decide⟩
  | nul => exact ⟨110, _, rfl, by decide, by decide, by decide, by decide⟩
  | arr t _ => exact ⟨91, _, rfl, by decide, by decide, by decide, by decide⟩
  | obj t _ => exact ⟨123, _, rfl, by decide, by decide, by decide, by decide⟩

theorem JT.length_pos {k : JK} {d : Nat} {t : Bytes} (h : JT k d t) : 1 ≤ t.length := by
  cases h with
  | num n hn => obtain ⟨b, r, rfl, _, _⟩ := hn; simp
  | eCons w v rest _ hv _ _ => obtain ⟨b, r, rfl, _⟩ := hv.val_head; simp; omega
  | str | tru | fls | nul | arr | obj | eEnd | mEnd => simp
  | mCons => simp; omega

/-- what each of the three mutually recursive skippers does on a text of its grammar -/
def kOff : JK → Nat
  | .val => 0
  | _ => 1

def BurnsTo (k : JK) (t : Bytes) (dp fuel : Nat) (R : Bytes) : Prop :=
  match k with
  | .val => burnValue fuel (t ++ R) dp = .ok R
  | .elems => burnArray fuel (t ++ R) dp = .ok R
  | .members => burnObject fuel (t ++ R) dp = .ok R

theorem burn_jt {k : JK} {d : Nat} {t : Bytes} (h : JT k d t) :
    ∀ (dp fuel : Nat) (R : Bytes), dp + d + kOff k ≤ 64 → t.length + 1 ≤ fuel →
      (k = .val → HeadNotNum R) → BurnsTo k t dp fuel R := by
  induction h with
  | str s hs =>
    intro dp fuel R hd hf _
    simp only [kOff] at hd
    obtain ⟨f, rfl⟩ : ∃ f, fuel = f + 1 := ⟨fuel - 1, by simp at hf; omega⟩
    simp only [BurnsTo, List.cons_append, List.append_assoc, burnValue]
    rw [if_neg (by unfold MAX_BURN_DEPTH; omega)]
    simp only [if_true]
    exact burnString_body s R hs
  | num n hn =>
    intro dp fuel R hd hf hR
    simp only [kOff] at hd
    obtain ⟨b, r, rfl, hb, hr⟩ := hn
    obtain ⟨f, rfl⟩ : ∃ f, fuel = f + 1 := ⟨fuel - 1, by simp at hf; omega⟩
    have hbn : numberChars.contains b = true := by
      rcases hb with rfl | hb
      · decide
      · unfold isDigit at hb
        simp only [Bool.and_eq_true, decide_eq_true_eq] at hb
        have : b = 48 ∨ b = 49 ∨ b = 50 ∨ b = 51 ∨ b = 52 ∨ b = 53 ∨ b = 54 ∨ b = 55 ∨ b = 56 ∨ b = 57 := by omega
        rcases this with rfl | rfl | rfl | rfl | rfl | rfl | rfl | rfl | rfl | rfl <;> decide
    have hall : ∀ c ∈ b :: r, numberChars.contains c = true := by
      intro c hc
      rcases List.mem_cons.mp hc with rfl | hc
      · exact hbn
      · exact hr c hc
    have hbn' := burnNumber_all (b :: r) R hall (hR rfl)
    simp only [BurnsTo, List.cons_append, burnValue]
    rw [if_neg (by unfold MAX_BURN_DEPTH; omega)]
    simp only [List.cons_append] at hbn'
    rcases hb with rfl | hb
    · simp only [show (45 : Nat) ≠ 34 from by decide, show (45 : Nat) ≠ 91 from by decide,
        show (45 : Nat) ≠ 123 from by decide, show (45 : Nat) ≠ 116 from by decide,
        show (45 : Nat) ≠ 102 from by decide, show (45 : Nat) ≠ 110 from by decide, if_false, if_true, hbn']
    · have hd' := hb
      unfold isDigit at hd'
      simp only [Bool.and_eq_true, decide_eq_true_eq] at hd'
      rw [if_neg (by omega), if_neg (by omega), if_neg (by omega), if_neg (by omega), if_neg (by omega),
        if_neg (by omega), if_neg (by omega), if_pos hb, hbn']
  | tru =>
    intro dp fuel R hd hf _
    simp only [kOff] at hd
    obtain ⟨f, rfl⟩ : ∃ f, fuel = f + 1 := ⟨fuel - 1, by simp at hf; omega⟩
    simp only [BurnsTo, List.cons_append, burnValue]
    rw [if_neg (by unfold MAX_BURN_DEPTH; omega)]
    simp [burnLit]
  | fls =>
    intro dp fuel R hd hf _
    simp only [kOff] at hd
    obtain ⟨f, rfl⟩ : ∃ f, fuel = f + 1 := ⟨fuel - 1, by simp at hf; omega⟩
    simp only [BurnsTo, List.cons_append, burnValue]
    rw [if_neg (by unfold MAX_BURN_DEPTH; omega)]
    simp [burnLit]
  | nul =>
    intro dp fuel R hd hf _
    simp only [kOff] at hd
    obtain ⟨f, rfl⟩ : ∃ f, fuel = f + 1 := ⟨fuel - 1, by simp at hf; omega⟩
    simp only [BurnsTo, List.cons_append, burnValue]
    rw [if_neg (by unfold MAX_BURN_DEPTH; omega)]
    simp [burnLit]
  | arr t _ ih =>
    intro dp fuel R hd hf _
    simp only [kOff] at hd
    obtain ⟨f, rfl⟩ : ∃ f, fuel = f + 1 := ⟨fuel - 1, by simp at hf; omega⟩
    have := ih dp f R (by simp only [kOff]; omega) (by simp at hf; omega) (by intro h; cases h)
    simp only [BurnsTo] at this
    simp only [BurnsTo, List.cons_append, burnValue]
    rw [if_neg (by unfold MAX_BURN_DEPTH; omega)]
    simp only [show (91 : Nat) ≠ 34 from by decide, if_false, if_true, this]
  | obj t _ ih =>
    intro dp fuel R hd hf _
    simp only [kOff] at hd
    obtain ⟨f, rfl⟩ : ∃ f, fuel = f + 1 := ⟨fuel - 1, by simp at hf; omega⟩
    have := ih dp f R (by simp only [kOff]; omega) (by simp at hf; omega) (by intro h; cases h)
    simp only [BurnsTo] at this
    simp only [BurnsTo, List.cons_append, burnValue]
    rw [if_neg (by unfold MAX_BURN_DEPTH; omega)]
    simp only [show (123 : Nat) ≠ 34 from by decide, show (123 : Nat) ≠ 91 from by decide, if_false, if_true, this]
  | eEnd w hw =>
    intro dp fuel R _ hf _
    obtain ⟨f, rfl⟩ : ∃ f, fuel = f + 1 := ⟨fuel - 1, by simp at hf; omega⟩
    simp only [BurnsTo, List.append_assoc, List.cons_append, List.nil_append, burnArray]
    rw [eatWsC_sepws w 93 R hw (by decide) (by decide)]
    simp
  | eCons w v rest hw hv hrest hnn ihv ihr =>
    intro dp fuel R hd hf _
    simp only [kOff] at hd
    obtain ⟨f, rfl⟩ : ∃ f, fuel = f + 1 := ⟨fuel - 1, by simp at hf; omega⟩
    obtain ⟨b, r, rfl, hb1, hb2, hb3, _⟩ := hv.val_head
    have hlr := hrest.length_pos
    simp only [List.length_append, List.length_cons] at hf
    have hR' : HeadNotNum (rest ++ R) := by
      intro c x hx
      cases rest with
      | nil => simp at hlr
      | cons c' x' => simp only [List.cons_append, List.cons.injEq] at hx; exact hx.1 ▸ hnn c' x' rfl
    have h1 := ihv (dp + 1) f (rest ++ R) (by simp only [kOff]; omega) (by simp only [List.length_cons]; omega) (fun _ => hR')
    have h2 := ihr dp f R (by simp only [kOff]; omega) (by omega) (by intro h; cases h)
    simp only [BurnsTo] at h1 h2
    simp only [BurnsTo, List.append_assoc, List.cons_append, burnArray]
    rw [eatWsC_sepws w b _ hw hb1 hb2]
    simp only [if_neg hb3]
    simp only [List.cons_append, List.append_assoc] at h1
    rw [h1]
    exact h2
  | mEnd w hw =>
    intro dp fuel R _ hf _
    obtain ⟨f, rfl⟩ : ∃ f, fuel = f + 1 := ⟨fuel - 1, by simp at hf; omega⟩
    simp only [BurnsTo, List.append_assoc, List.cons_append, List.nil_append, burnObject]
    rw [eatWsC_sepws w 125 R hw (by decide) (by decide)]
    simp
  | mCons w k w1 w2 v rest hw hk hw1 hw2 hv hrest hnn ihv ihr =>
    intro dp fuel R hd hf _
    simp only [kOff] at hd
    obtain ⟨f, rfl⟩ : ∃ f, fuel = f + 1 := ⟨fuel - 1, by simp at hf; omega⟩
    obtain ⟨b, r, rfl, hb1, _, _, _⟩ := hv.val_head
    have hlr := hrest.length_pos
    simp only [List.length_append, List.length_cons] at hf
    have hR' : HeadNotNum (rest ++ R) := by
      intro c x hx
      cases rest with
      | nil => simp at hlr
      | cons c' x' => simp only [List.cons_append, List.cons.injEq] at hx; exact hx.1 ▸ hnn c' x' rfl
    have h1 := ihv (dp + 1) f (rest ++ R) (by simp only [kOff]; omega) (by simp only [List.length_cons]; omega) (fun _ => hR')
    have h2 := ihr dp f R (by simp only [kOff]; omega) (by omega) (by intro h; cases h)
    simp only [BurnsTo] at h1 h2
    simp only [BurnsTo, List.append_assoc, List.cons_append, burnObject]
    rw [eatWsC_sepws w 34 _ hw (by decide) (by decide)]
    simp only [show (34 : Nat) ≠ 125 from by decide, if_false, verifyChar, if_true]
    rw [burnString_body k _ hk]
    simp only []
    rw [eatColon_ws w1 w2 b _ hw1 hw2 hb1]
    simp only [List.cons_append, List.append_assoc] at h1
    simp only [h1]
    exact h2

/-- **`burn_value`**: any JSON value nested at most 64 deep is skipped exactly, whatever follows -/
theorem burnValue_json (d : Nat) (v R : Bytes) (hv : JT .val d v) (hd : d ≤ MAX_BURN_DEPTH)
    (hR : HeadNotNum R) (fuel : Nat) (hf : v.length + 1 ≤ fuel) : burnValue fuel (v ++ R) 0 = .ok R :=
  burn_jt hv 0 fuel R (by unfold MAX_BURN_DEPTH at hd; simp only [kOff]; omega) hf (fun _ => hR)

/-- **`burn_key_and_value`**: a whole member `"key" : value`, any key, any whitespace round the colon -/
theorem burnKeyValue_json (d : Nat) (k w1 w2 v R : Bytes) (hk : StrBody k) (h1 : AllWs w1) (h2 : AllWs w2)
    (hv : JT .val d v) (hd : d ≤ MAX_BURN_DEPTH) (hR : HeadNotNum R) :
    burnKeyValue (34 :: (k ++ 34 :: (w1 ++ 58 :: (w2 ++ (v ++ R))))) 0 = .ok R := by
  obtain ⟨b, r, rfl, hb1, _, _, _⟩ := hv.val_head
  unfold burnKeyValue
  simp only [verifyChar, if_true]
  rw [burnString_body k _ hk]
  simp only []
  rw [List.cons_append, eatColon_ws w1 w2 b _ h1 h2 hb1]
  simp only []
  have := burnValue_json d (b :: r) R hv hd hR (burnFuel (b :: (r ++ R))) (by
    unfold burnFuel; simp only [List.length_cons, List.length_append]; omega)
  simpa using this

/-- a key that is none of the given known keys does not begin like one of them followed by `"` -/
theorem startsWith_other_key (key kb rest : Bytes) (hkey : ∀ b ∈ key, b ≠ 34 ∧ b ≠ 92) (hk : StrBody kb)
    (hne : kb ≠ key) : startsWith (key ++ [34]) (kb ++ 34 :: rest) = false := by
  unfold startsWith
  rw [beq_eq_false_iff_ne]
  intro h
  induction key generalizing kb with
  | nil =>
    cases hk with
    | nil => exact hne rfl
    | raw b r h1 _ _ => simp at h; exact h1 h
    | esc c r _ => simp at h
  | cons a key ih =>
    cases hk with
    | nil =>
      simp only [List.nil_append, List.cons_append, List.length_cons, List.take_succ_cons, List.cons.injEq] at h
      exact (hkey a (by simp)).1 h.1.symm
    | raw b r h1 h2 hr =>
      simp only [List.cons_append, List.length_cons, List.take_succ_cons, List.cons.injEq] at h
      obtain ⟨rfl, h'⟩ := h
      exact ih r (fun x hx => hkey x (by simp [hx])) hr (fun heq => hne (by rw [heq])) (by
        simpa using h')
    | esc c r _ =>
      simp only [List.cons_append, List.length_cons, List.take_succ_cons, List.cons.injEq] at h
      exact (hkey a (by simp)).2 h.1.symm

end Pocket
