import Pocket.Lemmas.Find
import Pocket.Lemmas.StoreAddr
/- completeness of `find_events` when the limit is not binding (C05, C17, C18) -/
namespace Pocket

theorem insertSorted_length (x : SEv) (l : List SEv) : (insertSorted x l).length = l.length + 1 := by
  induction l with
  | nil => rfl
  | cons a l ih => unfold insertSorted; split <;> simp [ih]

theorem sortScan_length (l : List SEv) : (sortScan l).length = l.length := by
  unfold sortScan
  induction l with
  | nil => rfl
  | cons a l ih => simp only [List.foldr_cons, insertSorted_length, ih, List.length_cons]

theorem scan_length_le (live : List SEv) (p : EventRec → Bool) (a b : Nat) :
    (scan live p a b).length ≤ live.length := by
  unfold scan; rw [sortScan_length]; exact List.length_filter_le _ _

theorem scan_mem_iff (live : List SEv) (p : EventRec → Bool) (since «until» : Nat) (x : SEv) :
    x ∈ scan live p since «until» ↔
      (x ∈ live ∧ p x.e = true ∧ since ≤ x.e.createdAt ∧ x.e.createdAt ≤ «until») := by
  unfold scan
  rw [sortScan_mem]
  simp only [List.mem_filter, Bool.and_eq_true, decide_eq_true_eq]
  constructor
  · intro h; exact ⟨h.1, h.2.1.1, h.2.1.2, h.2.2⟩
  · intro h; exact ⟨h.1, ⟨h.2.1, h.2.2.1⟩, h.2.2.2⟩

/-- the facts about the store state that completeness needs -/
structure Ctx (live : List SEv) (f : FilterRec) (scr : EventRec → Screen) : Prop where
  ids : (live.map (·.e.id)).Nodup
  addr : AddrUniq live
  nolimit : live.length < f.limit

theorem insertOut_self (live out : List SEv) (x : SEv) (hids : (live.map (·.e.id)).Nodup)
    (hx : x ∈ live) (hout : ∀ y ∈ out, y ∈ live) : x ∈ insertOut out x := by
  unfold insertOut
  split
  · rename_i h
    obtain ⟨y, hy, hyid⟩ := List.any_eq_true.mp h
    have : y = x := nodup_ids_inj _ hids y (hout y hy) x hx (by simpa using hyid)
    rw [← this]; exact hy
  · simp

theorem insertOut_mono (out : List SEv) (x y : SEv) (h : y ∈ out) : y ∈ insertOut out x := by
  unfold insertOut; split
  · exact h
  · exact List.mem_append_left _ h

theorem accept_true (f : FilterRec) (scr : EventRec → Screen) (x : SEv) (st : FindState)
    (hm : eventMatches f x.e = true) (hs : scr x.e = .match) : (accept f scr x st).1 = true := by
  unfold accept; simp [hm, hs]

/-- `consumeRange` with a non-binding limit: it never advances `since`, keeps what was collected,
and collects the matching, screened-in event `x` if `x` is in the range -/
theorem consumeRange_complete (live : List SEv) (f : FilterRec) (scr : EventRec → Screen)
    (hids : (live.map (·.e.id)).Nodup) (stop : Bool) (l : List SEv) (hl : ∀ y ∈ l, y ∈ live)
    (count : Nat) (st : FindState) (hg : Good live f scr st) (hcount : count + l.length < f.limit)
    (hsince : ∀ y ∈ l, st.since ≤ y.e.createdAt) :
    (consumeRange f scr stop l count st).since = st.since ∧
    (∀ y ∈ st.out, y ∈ (consumeRange f scr stop l count st).out) ∧
    (∀ x ∈ l, eventMatches f x.e = true → scr x.e = .match → (stop = true → ∀ y ∈ l, y = x) →
        x ∈ (consumeRange f scr stop l count st).out) := by
  induction l generalizing count st with
  | nil => exact ⟨rfl, fun y hy => hy, fun x hx => by cases hx⟩
  | cons a rest ih =>
    have ha := hl a (by simp)
    have hrest : ∀ y ∈ rest, y ∈ live := fun y hy => hl y (by simp [hy])
    obtain ⟨g1, g2⟩ := Good_accept_insert live f scr st a ha hg
    obtain ⟨o1, o2, _, _⟩ := accept_spec f scr a st
    have hnlt : ¬ a.e.createdAt < st.since := by have := hsince a (by simp); omega
    simp only [List.length_cons] at hcount
    unfold consumeRange
    rw [if_neg hnlt]
    dsimp only
    by_cases hok : (accept f scr a st).1 = true
    · rw [if_pos hok]
      have g := g2 hok
      have hnl : ¬ count + 1 ≥ f.limit := by omega
      rw [if_neg hnl]
      by_cases hstop : stop = true
      · rw [if_pos hstop]
        refine ⟨o2, fun y hy => insertOut_mono _ _ _ (by rw [o1]; exact hy), ?_⟩
        intro x hx hm hs huniq
        have : a = x := huniq hstop a (by simp)
        subst this
        exact insertOut_self live _ a hids ha (fun y hy => (g1.sound y hy).1)
      · rw [if_neg hstop]
        obtain ⟨i1, i2, i3⟩ := ih hrest (count + 1) _ g (by omega)
          (fun y hy => by
            have := hsince y (by simp [hy])
            show (accept f scr a st).2.since ≤ _
            rw [o2]; exact this)
        refine ⟨i1.trans o2, fun y hy => i2 y (insertOut_mono _ _ _ (by rw [o1]; exact hy)), ?_⟩
        intro x hx hm hs huniq
        rcases List.mem_cons.mp hx with rfl | hx'
        · exact i2 _ (insertOut_self live _ _ hids ha (fun y hy => (g1.sound y hy).1))
        · exact i3 x hx' hm hs (fun h => absurd h hstop)
    · rw [if_neg hok]
      obtain ⟨i1, i2, i3⟩ := ih hrest count _ g1 (by omega)
        (fun y hy => by have := hsince y (by simp [hy]); rw [o2]; exact this)
      refine ⟨i1.trans o2, fun y hy => i2 y (by rw [o1]; exact hy), ?_⟩
      intro x hx hm hs huniq
      rcases List.mem_cons.mp hx with rfl | hx'
      · exact absurd (accept_true f scr _ st hm hs) hok
      · refine i3 x hx' hm hs (fun h y hy => ?_)
        exact huniq h y (by simp [hy])

/-- a list of ranges with a non-binding limit: `since` stays, what is collected stays, and every
matching event that lies in one of the ranges (opened at the original `since`) is collected -/
theorem planRanges_complete (live : List SEv) (f : FilterRec) (scr : EventRec → Screen)
    (hids : (live.map (·.e.id)).Nodup) (hnl : live.length < f.limit)
    (rs : List (Bool × (Nat → List SEv)))
    (hr : ∀ r ∈ rs, ∀ n, (∀ y ∈ r.2 n, y ∈ live ∧ n ≤ y.e.createdAt) ∧ (r.2 n).length ≤ live.length)
    (st : FindState) (hg : Good live f scr st) :
    (planRanges f scr rs st).since = st.since ∧
    (∀ y ∈ st.out, y ∈ (planRanges f scr rs st).out) ∧
    (∀ r ∈ rs, ∀ x ∈ r.2 st.since, eventMatches f x.e = true → scr x.e = .match →
        (r.1 = true → ∀ y ∈ r.2 st.since, y = x) → x ∈ (planRanges f scr rs st).out) := by
  induction rs generalizing st with
  | nil => exact ⟨rfl, fun y hy => hy, fun r hr' => by cases hr'⟩
  | cons r rest ih =>
    obtain ⟨stop, range⟩ := r
    have hrr := hr (stop, range) (by simp) st.since
    obtain ⟨c1, c2, c3⟩ := consumeRange_complete live f scr hids stop (range st.since)
      (fun y hy => (hrr.1 y hy).1) 0 st hg
      (by have h2 : (range st.since).length ≤ live.length := hrr.2
          omega) (fun y hy => (hrr.1 y hy).2)
    have g' := Good_consumeRange live f scr stop (range st.since) (fun y hy => (hrr.1 y hy).1) 0 st hg
    obtain ⟨i1, i2, i3⟩ := ih (fun r' hr' => hr r' (by simp [hr'])) _ g'
    unfold planRanges
    refine ⟨i1.trans c1, fun y hy => i2 y (c2 y hy), ?_⟩
    intro r' hr' x hx hm hs hu
    rcases List.mem_cons.mp hr' with rfl | hin
    · exact i2 x (c3 x hx hm hs hu)
    · rw [c1] at i3; exact i3 r' hin x hx hm hs hu

end Pocket

namespace Pocket

theorem consumeRangeAc_complete (live : List SEv) (f : FilterRec) (scr : EventRec → Screen)
    (hids : (live.map (·.e.id)).Nodup) (l : List SEv) (hl : ∀ y ∈ l, y ∈ live)
    (count : Nat) (st : FindState) (hg : Good live f scr st) (hcount : count + l.length < f.limit)
    (hsince : ∀ y ∈ l, f.since ≤ y.e.createdAt) :
    (consumeRangeAc f scr l count st).since = st.since ∧
    (∀ y ∈ st.out, y ∈ (consumeRangeAc f scr l count st).out) ∧
    (∀ x ∈ l, eventMatches f x.e = true → scr x.e = .match → x ∈ (consumeRangeAc f scr l count st).out) := by
  induction l generalizing count st with
  | nil => exact ⟨rfl, fun y hy => hy, fun x hx => by cases hx⟩
  | cons a rest ih =>
    have ha := hl a (by simp)
    have hrest : ∀ y ∈ rest, y ∈ live := fun y hy => hl y (by simp [hy])
    obtain ⟨g1, g2⟩ := Good_accept_insert live f scr st a ha hg
    obtain ⟨o1, o2, _, _⟩ := accept_spec f scr a st
    have hnlt : ¬ a.e.createdAt < f.since := by have := hsince a (by simp); omega
    simp only [List.length_cons] at hcount
    unfold consumeRangeAc
    rw [if_neg hnlt]
    dsimp only
    by_cases hok : (accept f scr a st).1 = true
    · rw [if_pos hok]
      have g := g2 hok
      have hnl : ¬ count + 1 ≥ f.limit := by omega
      rw [if_neg hnl]
      obtain ⟨i1, i2, i3⟩ := ih hrest (count + 1) _ g (by omega) (fun y hy => hsince y (by simp [hy]))
      refine ⟨i1.trans o2, fun y hy => i2 y (insertOut_mono _ _ _ (by rw [o1]; exact hy)), ?_⟩
      intro x hx hm hs
      rcases List.mem_cons.mp hx with rfl | hx'
      · exact i2 _ (insertOut_self live _ _ hids ha (fun y hy => (g1.sound y hy).1))
      · exact i3 x hx' hm hs
    · rw [if_neg hok]
      obtain ⟨i1, i2, i3⟩ := ih hrest count _ g1 (by omega) (fun y hy => hsince y (by simp [hy]))
      refine ⟨i1.trans o2, fun y hy => i2 y (by rw [o1]; exact hy), ?_⟩
      intro x hx hm hs
      rcases List.mem_cons.mp hx with rfl | hx'
      · exact absurd (accept_true f scr _ st hm hs) hok
      · exact i3 x hx' hm hs

theorem planAc_complete (live : List SEv) (f : FilterRec) (scr : EventRec → Screen)
    (hids : (live.map (·.e.id)).Nodup) (hnl : live.length < f.limit) (as : List Bytes)
    (st : FindState) (hg : Good live f scr st) (hs0 : st.since = f.since) :
    (planAc live f scr as st).since = st.since ∧
    (∀ y ∈ st.out, y ∈ (planAc live f scr as st).out) ∧
    (∀ a ∈ as, ∀ x ∈ acScan live a f.since f.until, eventMatches f x.e = true → scr x.e = .match →
        x ∈ (planAc live f scr as st).out) := by
  induction as generalizing st with
  | nil => exact ⟨rfl, fun y hy => hy, fun a ha => by cases ha⟩
  | cons a rest ih =>
    have hsc : ∀ y ∈ acScan live a st.since f.until, y ∈ live ∧ f.since ≤ y.e.createdAt := by
      intro y hy
      have := (scan_mem_iff _ _ _ _ _).mp hy
      exact ⟨this.1, by rw [← hs0]; exact this.2.2.1⟩
    obtain ⟨c1, c2, c3⟩ := consumeRangeAc_complete live f scr hids _ (fun y hy => (hsc y hy).1) 0 st hg
      (by have := scan_length_le live (fun e => e.pubkey == a) st.since f.until
          unfold acScan; omega)
      (fun y hy => (hsc y hy).2)
    have g' := Good_consumeRangeAc live f scr _ (fun y hy => (hsc y hy).1) 0 st hg
    obtain ⟨i1, i2, i3⟩ := ih _ g' (c1.trans hs0)
    unfold planAc
    refine ⟨i1.trans c1, fun y hy => i2 y (c2 y hy), ?_⟩
    intro a' ha' x hx hm hs
    rcases List.mem_cons.mp ha' with rfl | hin
    · exact i2 x (c3 x (by rw [hs0]; exact hx) hm hs)
    · exact i3 a' hin x hx hm hs

theorem planIds_complete (live : List SEv) (f : FilterRec) (scr : EventRec → Screen)
    (hids : (live.map (·.e.id)).Nodup) (ids : List Bytes) (st : FindState) (hg : Good live f scr st) :
    (∀ y ∈ st.out, y ∈ (planIds live f scr ids st).out) ∧
    (∀ x ∈ live, x.e.id ∈ ids → eventMatches f x.e = true → scr x.e = .match →
        x ∈ (planIds live f scr ids st).out) := by
  induction ids generalizing st with
  | nil => exact ⟨fun y hy => hy, fun x _ hx => by cases hx⟩
  | cons id rest ih =>
    unfold planIds
    split
    · rename_i y hf
      obtain ⟨hy, hyid⟩ := findById_some_mem _ _ _ hf
      obtain ⟨g1, g2⟩ := Good_accept_insert live f scr st y hy hg
      obtain ⟨o1, _, _, _⟩ := accept_spec f scr y st
      by_cases hok : (accept f scr y st).1 = true
      · rw [if_pos hok]
        obtain ⟨i1, i2⟩ := ih _ (g2 hok)
        refine ⟨fun z hz => i1 z (insertOut_mono _ _ _ (by rw [o1]; exact hz)), ?_⟩
        intro x hx hxid hm hs
        rcases List.mem_cons.mp hxid with h | h
        · have : x = y := nodup_ids_inj _ hids x hx y hy (by rw [h, hyid])
          subst this
          exact i1 _ (insertOut_self live _ _ hids hy (fun z hz => (g1.sound z hz).1))
        · exact i2 x hx h hm hs
      · rw [if_neg hok]
        obtain ⟨i1, i2⟩ := ih _ g1
        refine ⟨fun z hz => i1 z (by rw [o1]; exact hz), ?_⟩
        intro x hx hxid hm hs
        rcases List.mem_cons.mp hxid with h | h
        · have : x = y := nodup_ids_inj _ hids x hx y hy (by rw [h, hyid])
          subst this
          exact absurd (accept_true f scr _ st hm hs) hok
        · exact i2 x hx h hm hs
    · rename_i hf
      obtain ⟨i1, i2⟩ := ih _ hg
      refine ⟨i1, ?_⟩
      intro x hx hxid hm hs
      rcases List.mem_cons.mp hxid with h | h
      · exact absurd (List.mem_map.mpr ⟨x, hx, h⟩) (findById_none_not_mem _ _ hf)
      · exact i2 x hx h hm hs

theorem nodup_subset_length {α : Type} [DecidableEq α] (l1 l2 : List α) (hn : l1.Nodup)
    (hs : ∀ x ∈ l1, x ∈ l2) : l1.length ≤ l2.length := by
  induction l1 generalizing l2 with
  | nil => simp
  | cons a l ih =>
    rw [List.nodup_cons] at hn
    have ha : a ∈ l2 := hs a (by simp)
    have : l.length ≤ (l2.erase a).length := by
      apply ih _ hn.2
      intro x hx
      have hne : x ≠ a := fun h => hn.1 (h ▸ hx)
      exact (List.mem_erase_of_ne hne).mpr (hs x (by simp [hx]))
    rw [List.length_erase_of_mem ha] at this
    have hpos : 0 < l2.length := List.length_pos_of_mem ha
    simp only [List.length_cons]; omega

theorem consumeScrape_complete (live : List SEv) (f : FilterRec) (scr : EventRec → Screen)
    (hids : (live.map (·.e.id)).Nodup) (hnl : live.length < f.limit) (l : List SEv) (hl : ∀ y ∈ l, y ∈ live)
    (st : FindState) (hg : Good live f scr st) :
    (∀ y ∈ st.out, y ∈ (consumeScrape f scr l st).out) ∧
    (∀ x ∈ l, eventMatches f x.e = true → scr x.e = .match → x ∈ (consumeScrape f scr l st).out) := by
  -- the collected output never outgrows the index, so the limit test never fires
  have outlen : ∀ st', Good live f scr st' → st'.out.length ≤ live.length := by
    intro st' g
    have hsub : ∀ y ∈ st'.out, y ∈ live := fun y hy => (g.sound y hy).1
    have hnd : (st'.out.map (·.e.id)).Nodup := by
      rw [List.Nodup, List.pairwise_map]; exact g.nodup
    have : (st'.out.map (·.e.id)).length ≤ (live.map (·.e.id)).length :=
      nodup_subset_length _ _ hnd (fun i hi => by
        obtain ⟨y, hy, rfl⟩ := List.mem_map.mp hi
        exact List.mem_map.mpr ⟨y, hsub y hy, rfl⟩)
    simpa using this
  induction l generalizing st with
  | nil => exact ⟨fun y hy => hy, fun x hx => by cases hx⟩
  | cons a rest ih =>
    have ha := hl a (by simp)
    have hrest : ∀ y ∈ rest, y ∈ live := fun y hy => hl y (by simp [hy])
    obtain ⟨g1, g2⟩ := Good_accept_insert live f scr st a ha hg
    obtain ⟨o1, _, _, _⟩ := accept_spec f scr a st
    have hnl' : ¬ st.out.length ≥ f.limit := by have := outlen st hg; omega
    unfold consumeScrape
    rw [if_neg hnl']
    dsimp only
    by_cases hok : (accept f scr a st).1 = true
    · rw [if_pos hok]
      obtain ⟨i1, i2⟩ := ih hrest _ (g2 hok)
      refine ⟨fun y hy => i1 y (insertOut_mono _ _ _ (by rw [o1]; exact hy)), ?_⟩
      intro x hx hm hs
      rcases List.mem_cons.mp hx with rfl | hx'
      · exact i1 _ (insertOut_self live _ _ hids ha (fun y hy => (g1.sound y hy).1))
      · exact i2 x hx' hm hs
    · rw [if_neg hok]
      obtain ⟨i1, i2⟩ := ih hrest _ g1
      refine ⟨fun y hy => i1 y (by rw [o1]; exact hy), ?_⟩
      intro x hx hm hs
      rcases List.mem_cons.mp hx with rfl | hx'
      · exact absurd (accept_true f scr _ st hm hs) hok
      · exact i2 x hx' hm hs

end Pocket

namespace Pocket

theorem scan_range_ok (live : List SEv) (p : EventRec → Bool) (n u : Nat) :
    (∀ y ∈ scan live p n u, y ∈ live ∧ n ≤ y.e.createdAt) ∧ (scan live p n u).length ≤ live.length :=
  ⟨fun y hy => by have := (scan_mem_iff _ _ _ _ _).mp hy; exact ⟨this.1, this.2.2.1⟩, scan_length_le _ _ _ _⟩

theorem mem_pairs {α β : Type} (as : List α) (bs : List β) (a : α) (b : β) :
    (a, b) ∈ pairs as bs ↔ a ∈ as ∧ b ∈ bs := by
  unfold pairs
  simp only [List.mem_flatMap, List.mem_map, Prod.mk.injEq]
  constructor
  · rintro ⟨a', ha', b', hb', rfl, rfl⟩; exact ⟨ha', hb'⟩
  · rintro ⟨ha, hb⟩; exact ⟨a, ha, b, hb, rfl, rfl⟩

/-- every tag constraint is `[letter] :: values` (a NIP-01 filter) -/
def SingleLetter (f : FilterRec) : Prop := ∀ c ∈ f.tags, ∃ l vs, c = [l] :: vs

theorem mem_any_beq {α} [BEq α] [LawfulBEq α] (l : List α) (x : α) : (l.any (· == x)) = true ↔ x ∈ l := by
  simp [List.any_eq_true]

/-- what a match implies, clause by clause -/
theorem eventMatches_facts (f : FilterRec) (e : EventRec) (h : eventMatches f e = true) :
    (f.ids = [] ∨ e.id ∈ f.ids) ∧ (f.authors = [] ∨ e.pubkey ∈ f.authors) ∧
    (f.kinds = [] ∨ e.kind ∈ f.kinds) ∧ f.since ≤ e.createdAt ∧ e.createdAt ≤ f.until := by
  unfold eventMatches at h
  by_cases c1 : (!f.ids.isEmpty && !f.ids.any (· == e.id)) = true
  · rw [if_pos c1] at h; cases h
  rw [if_neg c1] at h
  by_cases c2 : (!f.authors.isEmpty && !f.authors.any (· == e.pubkey)) = true
  · rw [if_pos c2] at h; cases h
  rw [if_neg c2] at h
  by_cases c3 : (!f.kinds.isEmpty && !f.kinds.any (· == e.kind)) = true
  · rw [if_pos c3] at h; cases h
  rw [if_neg c3] at h
  by_cases c4 : e.createdAt < f.since
  · rw [if_pos c4] at h; cases h
  rw [if_neg c4] at h
  by_cases c5 : e.createdAt > f.until
  · rw [if_pos c5] at h; cases h
  have cl : ∀ {α} [BEq α] [LawfulBEq α] (l : List α) (x : α),
      ¬ (!l.isEmpty && !l.any (· == x)) = true → l = [] ∨ x ∈ l := by
    intro α _ _ l x hh
    cases l with
    | nil => exact Or.inl rfl
    | cons a l =>
      right
      rw [← mem_any_beq]
      simp only [List.isEmpty_cons, Bool.not_false, Bool.true_and, Bool.not_eq_true', Bool.not_eq_false] at hh
      exact hh
  exact ⟨cl _ _ c1, cl _ _ c2, cl _ _ c3, by omega, by omega⟩

/-- a match on a filter with tag constraints provides, for the first constraint, an index probe
under which the event is filed -/
theorem match_has_probe (f : FilterRec) (e : EventRec) (hsl : SingleLetter f) (hne : f.tags ≠ [])
    (h : eventMatches f e = true) : ∃ p ∈ tagProbes f.tags, hasTagKey e p.1 p.2 = true := by
  obtain ⟨c, rest, hc⟩ := List.exists_cons_of_ne_nil hne
  obtain ⟨l, vs, hcl⟩ := hsl c (by rw [hc]; simp)
  -- the tag loop must have succeeded on the first constraint
  unfold eventMatches at h
  repeat' split at h
  all_goals first
    | (cases h; done)
    | skip
  all_goals (try (rename_i hft _; simp [hc] at hft; done))
  all_goals (try (rename_i hft; simp [hc] at hft; done))
  rw [hc, hcl] at h
  simp only [filterTagLoop] at h
  split at h
  · rename_i hany
    obtain ⟨v, hv, hm⟩ := List.any_eq_true.mp hany
    unfold tagsMatch at hm
    obtain ⟨t, ht, htm⟩ := List.any_eq_true.mp hm
    simp only [Bool.and_eq_true, beq_iff_eq] at htm
    refine ⟨(l, v), ?_, ?_⟩
    · rw [hc, hcl]
      simp only [tagProbes, List.flatMap_cons, List.mem_append, List.mem_map]
      exact Or.inl ⟨v, hv, rfl⟩
    · unfold hasTagKey
      apply List.any_eq_true.mpr
      refine ⟨t, ht, ?_⟩
      cases t with
      | nil => simp at htm
      | cons n t' =>
        cases t' with
        | nil => simp at htm
        | cons v' t'' =>
          simp only [List.getElem?_cons_zero, Option.some.injEq, List.getElem?_cons_succ] at htm
          simp [htm.1, htm.2]
  · cases h

/-- **completeness when the limit is not binding**: every retrievable event that matches the
filter and passes the screen is returned — through whichever index plan serves the filter -/
theorem findEvents_complete (live : List SEv) (f : FilterRec) (allow : Bool) (l secs now : Nat)
    (scr : EventRec → Screen) (out : List SEv) (red : Bool)
    (hids : (live.map (·.e.id)).Nodup) (hau : AddrUniq live) (hnl : live.length < f.limit)
    (hsl : SingleLetter f)
    (h : findEvents live f allow l secs now scr = .ok out red)
    (x : SEv) (hx : x ∈ live) (hm : eventMatches f x.e = true) (hs : scr x.e = .match) : x ∈ out := by
  obtain ⟨m1, m2, m3, m4, m5⟩ := eventMatches_facts f x.e hm
  have g0 := Good_init live f scr f.since
  unfold findEvents at h
  split at h
  · rename_i st hst
    simp only [FindReply.ok.injEq] at h
    obtain ⟨rfl, _⟩ := h
    have hg := Good_findState live f allow l secs now scr st hst
    -- it suffices that x was collected: the final sort keeps it and `take` does not cut
    suffices hxo : x ∈ st.out by
      have hlen : (sortOut st.out).length ≤ live.length := by
        have hnd : ((sortOut st.out).map (·.e.id)).Nodup := by
          rw [List.Nodup, List.pairwise_map]; exact sortOut_nodup _ hg.nodup
        have := nodup_subset_length _ (live.map (·.e.id)) hnd (fun i hi => by
          obtain ⟨y, hy, rfl⟩ := List.mem_map.mp hi
          exact List.mem_map.mpr ⟨y, (hg.sound y ((sortOut_mem _ _).mp hy)).1, rfl⟩)
        simpa using this
      rw [List.take_of_length_le (by omega)]
      exact (sortOut_mem _ _).mpr hxo
    have hscanlen : ∀ (p : EventRec → Bool) (a b : Nat), (scan live p a b).length ≤ live.length :=
      scan_length_le live
    unfold findState at hst
    dsimp only at hst
    by_cases hi : f.ids.isEmpty = false
    · -- ids plan
      simp only [hi, Bool.not_false, if_true, Option.some.injEq] at hst
      subst hst
      have hne : f.ids ≠ [] := by intro hh; simp [hh] at hi
      have hin : x.e.id ∈ f.ids := m1.resolve_left hne
      exact (planIds_complete live f scr hids f.ids _ g0).2 x hx hin hm hs
    have hi' : f.ids.isEmpty = true := by simpa using hi
    simp only [hi', Bool.not_true, Bool.false_eq_true, if_false] at hst
    by_cases ha : f.authors.isEmpty = false
    · have hane : f.authors ≠ [] := by intro hh; simp [hh] at ha
      have hain : x.e.pubkey ∈ f.authors := m2.resolve_left hane
      by_cases hk : f.kinds.isEmpty = false
      · -- author + kind plan
        simp only [ha, hk, Bool.not_false, Bool.and_self, if_true, Option.some.injEq] at hst
        subst hst
        have hkne : f.kinds ≠ [] := by intro hh; simp [hh] at hk
        have hkin : x.e.kind ∈ f.kinds := m3.resolve_left hkne
        have hr : ∀ r ∈ akcRanges live f, ∀ n, (∀ y ∈ r.2 n, y ∈ live ∧ n ≤ y.e.createdAt) ∧
            (r.2 n).length ≤ live.length := by
          intro r hr n
          simp only [akcRanges, List.mem_map] at hr
          obtain ⟨⟨a, k⟩, _, rfl⟩ := hr
          exact scan_range_ok live (fun e => e.pubkey == a && e.kind == k) n f.until
        refine (planRanges_complete live f scr hids hnl _ hr _ g0).2.2
          (isReplaceable x.e.kind, fun since => akcScan live x.e.pubkey x.e.kind since f.until) ?_ x ?_ hm hs ?_
        · simp only [akcRanges, List.mem_map]
          exact ⟨(x.e.pubkey, x.e.kind), (mem_pairs _ _ _ _).mpr ⟨hain, hkin⟩, rfl⟩
        · show x ∈ scan live (fun e => e.pubkey == x.e.pubkey && e.kind == x.e.kind) f.since f.until
          exact (scan_mem_iff _ _ _ _ _).mpr ⟨hx, by simp, m4, m5⟩
        · intro hrep y hy
          have hy' := (scan_mem_iff live (fun e => e.pubkey == x.e.pubkey && e.kind == x.e.kind) f.since f.until y).mp hy
          simp only [Bool.and_eq_true, beq_iff_eq] at hy'
          have : addrOf y.e = addrOf x.e := (repl_holder_iff x.e y.e hrep).mp ⟨hy'.2.1.1, hy'.2.1.2⟩
          have hrep' : isReplaceable x.e.kind = true := hrep
          exact hau y hy'.1 x hx this (by rw [this]; unfold addrOf; rw [if_pos hrep']; simp)
      have hk' : f.kinds.isEmpty = true := by simpa using hk
      by_cases ht : f.tags.isEmpty = false
      · -- author + tag plan
        simp only [ha, hk', ht, Bool.not_false, Bool.not_true, Bool.and_false, Bool.and_self,
          Bool.false_eq_true, if_false, if_true, Option.some.injEq] at hst
        subst hst
        have htne : f.tags ≠ [] := by intro hh; simp [hh] at ht
        obtain ⟨p, hp, hkey⟩ := match_has_probe f x.e hsl htne hm
        have hr : ∀ r ∈ atcRanges live f, ∀ n, (∀ y ∈ r.2 n, y ∈ live ∧ n ≤ y.e.createdAt) ∧
            (r.2 n).length ≤ live.length := by
          intro r hr n
          simp only [atcRanges, List.mem_map] at hr
          obtain ⟨⟨a, q⟩, _, rfl⟩ := hr
          exact scan_range_ok live (fun e => e.pubkey == a && hasTagKey e q.1 q.2) n f.until
        refine (planRanges_complete live f scr hids hnl _ hr _ g0).2.2
          (false, fun since => atcScan live x.e.pubkey p.1 p.2 since f.until) ?_ x ?_ hm hs (fun h => by cases h)
        · simp only [atcRanges, List.mem_map]
          exact ⟨(x.e.pubkey, p), (mem_pairs _ _ _ _).mpr ⟨hain, hp⟩, rfl⟩
        · show x ∈ scan live (fun e => e.pubkey == x.e.pubkey && hasTagKey e p.1 p.2) f.since f.until
          exact (scan_mem_iff _ _ _ _ _).mpr ⟨hx, by simp [hkey], m4, m5⟩
      · -- author plan
        have ht' : f.tags.isEmpty = true := by simpa using ht
        simp only [ha, hk', ht', Bool.not_false, Bool.not_true, Bool.and_false, Bool.and_self,
          Bool.false_eq_true, if_false, if_true, Option.some.injEq] at hst
        subst hst
        refine (planAc_complete live f scr hids hnl f.authors _ g0 rfl).2.2 x.e.pubkey hain x ?_ hm hs
        show x ∈ scan live (fun e => e.pubkey == x.e.pubkey) f.since f.until
        exact (scan_mem_iff _ _ _ _ _).mpr ⟨hx, by simp, m4, m5⟩
    have ha' : f.authors.isEmpty = true := by simpa using ha
    by_cases ht : f.tags.isEmpty = false
    · have htne : f.tags ≠ [] := by intro hh; simp [hh] at ht
      obtain ⟨p, hp, hkey⟩ := match_has_probe f x.e hsl htne hm
      by_cases hk : f.kinds.isEmpty = false
      · -- kind + tag plan
        simp only [ha', hk, ht, Bool.not_false, Bool.not_true, Bool.false_and, Bool.and_self,
          Bool.false_eq_true, if_false, if_true, Option.some.injEq] at hst
        subst hst
        have hkne : f.kinds ≠ [] := by intro hh; simp [hh] at hk
        have hkin : x.e.kind ∈ f.kinds := m3.resolve_left hkne
        have hr : ∀ r ∈ ktcRanges live f, ∀ n, (∀ y ∈ r.2 n, y ∈ live ∧ n ≤ y.e.createdAt) ∧
            (r.2 n).length ≤ live.length := by
          intro r hr n
          simp only [ktcRanges, List.mem_map] at hr
          obtain ⟨⟨k, q⟩, _, rfl⟩ := hr
          exact scan_range_ok live (fun e => e.kind == k && hasTagKey e q.1 q.2) n f.until
        refine (planRanges_complete live f scr hids hnl _ hr _ g0).2.2
          (false, fun since => ktcScan live x.e.kind p.1 p.2 since f.until) ?_ x ?_ hm hs (fun h => by cases h)
        · simp only [ktcRanges, List.mem_map]
          exact ⟨(x.e.kind, p), (mem_pairs _ _ _ _).mpr ⟨hkin, hp⟩, rfl⟩
        · show x ∈ scan live (fun e => e.kind == x.e.kind && hasTagKey e p.1 p.2) f.since f.until
          exact (scan_mem_iff _ _ _ _ _).mpr ⟨hx, by simp [hkey], m4, m5⟩
      · -- tag plan
        have hk' : f.kinds.isEmpty = true := by simpa using hk
        simp only [ha', hk', ht, Bool.not_false, Bool.not_true, Bool.false_and, Bool.and_self,
          Bool.false_eq_true, if_false, if_true, Option.some.injEq] at hst
        subst hst
        have hr : ∀ r ∈ tcRanges live f, ∀ n, (∀ y ∈ r.2 n, y ∈ live ∧ n ≤ y.e.createdAt) ∧
            (r.2 n).length ≤ live.length := by
          intro r hr n
          simp only [tcRanges, List.mem_map] at hr
          obtain ⟨q, _, rfl⟩ := hr
          exact scan_range_ok live (fun e => hasTagKey e q.1 q.2) n f.until
        refine (planRanges_complete live f scr hids hnl _ hr _ g0).2.2
          (false, fun since => tcScan live p.1 p.2 since f.until) ?_ x ?_ hm hs (fun h => by cases h)
        · simp only [tcRanges, List.mem_map]; exact ⟨p, hp, rfl⟩
        · show x ∈ scan live (fun e => hasTagKey e p.1 p.2) f.since f.until
          exact (scan_mem_iff _ _ _ _ _).mpr ⟨hx, hkey, m4, m5⟩
    · -- scrape plan
      have ht' : f.tags.isEmpty = true := by simpa using ht
      simp only [ha', ht', Bool.not_true, Bool.false_and, Bool.and_false, Bool.false_eq_true, if_false] at hst
      split at hst
      · simp only [Option.some.injEq] at hst
        subst hst
        refine (consumeScrape_complete live f scr hids hnl (scan live (fun _ => true) f.since f.until)
          (fun y hy => ((scan_mem_iff _ _ _ _ _).mp hy).1) _ g0).2 x ?_ hm hs
        exact (scan_mem_iff _ _ _ _ _).mpr ⟨hx, rfl, m4, m5⟩
      · cases hst
  · cases h

end Pocket
