import Pocket.Lemmas.StoreDel
/- replaceable addresses (C09) -/
namespace Pocket

theorem repl_not_param (k : Nat) (h : isReplaceable k = true) : isParamReplaceable k = false := by
  unfold isReplaceable at h; unfold isParamReplaceable; simp at h ⊢; omega

/-- for a replaceable kind, "same author and kind" is "same address" -/
theorem repl_holder_iff (e x : EventRec) (he : isReplaceable e.kind = true) :
    (x.pubkey = e.pubkey ∧ x.kind = e.kind) ↔ addrOf x = addrOf e := by
  have hae : addrOf e = some (e.kind, e.pubkey, []) := by simp [addrOf, he]
  rw [hae]
  constructor
  · intro ⟨h1, h2⟩
    have : isReplaceable x.kind = true := by rw [h2]; exact he
    unfold addrOf
    rw [if_pos this, h1, h2]
  · intro h
    unfold addrOf at h
    by_cases hx : isReplaceable x.kind = true
    · simp only [hx, if_true, Option.some.injEq, Prod.mk.injEq] at h
      exact ⟨h.2.1, h.1⟩
    · simp only [hx, Bool.false_eq_true, if_false] at h
      by_cases hp : isParamReplaceable x.kind = true
      · simp only [hp, if_true] at h
        cases hd : getValue x.tags KEY_D with
        | none => rw [hd] at h; cases h
        | some d =>
          rw [hd] at h
          simp only [Option.map_some, Option.some.injEq, Prod.mk.injEq] at h
          have := repl_not_param e.kind he
          rw [← h.1] at this; rw [this] at hp; cases hp
      · simp [hp] at h

/-- for a parameterized kind, `isParamHolder` is "same address" -/
theorem param_holder_iff (x : EventRec) (k : Nat) (a d : Bytes) (hk : isParamReplaceable k = true) :
    isParamHolder x k a d = true ↔ addrOf x = some (k, a, d) := by
  have hnr : isReplaceable k = false := by
    unfold isParamReplaceable at hk; unfold isReplaceable; simp at hk ⊢; omega
  unfold isParamHolder
  simp only [Bool.and_eq_true, beq_iff_eq]
  constructor
  · intro ⟨⟨h1, h2⟩, h3⟩
    simp [addrOf, h2, hnr, hk, h3, h1]
  · intro h
    unfold addrOf at h
    by_cases hx : isReplaceable x.kind = true
    · simp only [hx, if_true, Option.some.injEq, Prod.mk.injEq] at h
      rw [h.1] at hx; rw [hx] at hnr; cases hnr
    · simp only [hx, Bool.false_eq_true, if_false] at h
      by_cases hp : isParamReplaceable x.kind = true
      · simp only [hp, if_true] at h
        cases hd : getValue x.tags KEY_D with
        | none => rw [hd] at h; cases h
        | some d' =>
          rw [hd] at h
          simp only [Option.map_some, Option.some.injEq, Prod.mk.injEq] at h
          exact ⟨⟨h.2.1, h.1⟩, by rw [h.2.2]⟩
      · simp [hp] at h

/-- when `store_event` does not answer "replaced", no holder of the event's address is left -/
theorem preRemove_no_holder (c : List SEv) (e : EventRec) (h : (preRemove c e).2 = false)
    (x : SEv) (hx : x ∈ (preRemove c e).1) (ha : addrOf x.e = addrOf e) : addrOf e = none := by
  unfold preRemove at h hx
  by_cases he : isReplaceable e.kind = true
  · simp only [he, if_true] at h hx
    have := List.any_eq_false.mp h x hx
    have hh := (repl_holder_iff e x.e he).mpr ha
    simp [hh.1, hh.2] at this
  · simp only [he, Bool.false_eq_true, if_false] at h hx
    by_cases hp : isParamReplaceable e.kind = true
    · simp only [hp, if_true] at h hx
      cases hd : getValue e.tags KEY_D with
      | none => simp [addrOf, he, hp, hd]
      | some d =>
        rw [hd] at h hx
        dsimp only at h hx
        have := List.any_eq_false.mp h x hx
        have hae : addrOf e = some (e.kind, e.pubkey, d) := by simp [addrOf, he, hp, hd]
        rw [hae] at ha
        have := (param_holder_iff x.e e.kind e.pubkey d hp).mpr ha
        simp_all
    · simp [addrOf, he, hp]

/-- at most one retrievable event per replaceable address -/
def AddrUniq (live : List SEv) : Prop :=
  ∀ x ∈ live, ∀ y ∈ live, addrOf x.e = addrOf y.e → addrOf x.e ≠ none → x = y

theorem AddrUniq_subset (l l' : List SEv) (h : AddrUniq l) (hs : ∀ x ∈ l', x ∈ l) : AddrUniq l' :=
  fun x hx y hy => h x (hs x hx) y (hs y hy)

theorem kind5_no_addr (e : EventRec) (h : e.kind = 5) : addrOf e = none := by
  simp [addrOf, h, isReplaceable, isParamReplaceable]

theorem eph_no_addr (e : EventRec) (h : isEphemeral e.kind = true) : addrOf e = none := by
  unfold isEphemeral at h
  have : 20000 ≤ e.kind ∧ e.kind < 30000 := by simpa using h
  have h1 : isReplaceable e.kind = false := by unfold isReplaceable; simp; omega
  have h2 : isParamReplaceable e.kind = false := by unfold isParamReplaceable; simp; omega
  simp [addrOf, h1, h2]

theorem AddrUniq_txnLive (s : Store) (e : EventRec) (hu : AddrUniq s.db.live)
    (hrep : (preRemove s.db.live e).2 = false) : AddrUniq (txnLive s e) := by
  have hsub := preRemove_sublist s.db.live e
  have hpre : AddrUniq (preRemove s.db.live e).1 := AddrUniq_subset _ _ hu (fun x hx => hsub.subset hx)
  unfold txnLive
  split
  · exact hpre
  · intro x hx y hy hxy hne
    rcases List.mem_append.mp hx with hx | hx <;> rcases List.mem_append.mp hy with hy | hy
    · exact hpre x hx y hy hxy hne
    · simp only [List.mem_singleton] at hy; subst hy
      have := preRemove_no_holder _ e hrep x hx hxy
      rw [hxy] at hne; exact absurd this hne
    · simp only [List.mem_singleton] at hx; subst hx
      have := preRemove_no_holder _ e hrep y hy hxy.symm
      exact absurd this hne
    · simp only [List.mem_singleton] at hx hy; rw [hx, hy]

theorem AddrUniq_storeEvent (s : Store) (e : EventRec) (hu : AddrUniq s.db.live) :
    AddrUniq (storeEvent s e).2.db.live := by
  unfold storeEvent
  split
  · exact hu
  · by_cases hp : (preRemove s.db.live e).2 = true
    · rw [if_pos hp]; exact hu
    · rw [if_neg hp]
      have hp' : (preRemove s.db.live e).2 = false := by simpa using hp
      have ht := AddrUniq_txnLive s e hu hp'
      split
      · split
        · rename_i st hd
          exact AddrUniq_subset _ _ ht (fun x hx => (handleDeletion_sublist _ _ _ _ _ hd).subset hx)
        · exact hu
        · exact hu
      · exact ht

end Pocket
