// Kill points, traces and forced schedules over the `verif` hooks of pocket-db (C13, C14).
use crate::St;

pub fn handle(_st: &mut St, cmd: &str, _a: &[&str]) -> Result<String, String> {
    Err(format!("unsupported {}", cmd))
}
