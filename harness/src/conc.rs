// Kill points, traces and forced schedules over the `verif` hooks of pocket-db (C13, C14).
//
// TRC <request…>            run one store request with tracing on; reply `<reply> | p1,p2,…`
// KIL <point> <n> <request…> arm: `_exit(77)` at the n-th hit of <point>, then run the request
// CON <point> <n>[:<ms>] A <request…> B <request…>
//                            thread A runs its request and pauses at the n-th hit of <point>;
//                            thread B then runs its request (150 ms to finish, else "blocked");
//                            A is released; both replies and B's status are returned
// STRESS <threads> <iters> <seed>   randomised multi-thread stress (support only)
// MLN                        length of the event.map file (to recognise growth steps, C15)
use crate::{store_req, St};
use pocket_db::verif;
use std::sync::atomic::{AtomicUsize, Ordering};
use std::sync::{Arc, Condvar, Mutex};
use std::time::Duration;

struct Ctl {
    trace: Mutex<Option<Vec<&'static str>>>,
    kill: Mutex<Option<(String, usize)>>,
    pause: Mutex<Option<(String, usize, std::thread::ThreadId)>>,
    paused: Mutex<bool>,
    paused_cv: Condvar,
    release: Mutex<bool>,
    release_cv: Condvar,
    hits: AtomicUsize,
}

fn ctl() -> &'static Ctl {
    static C: std::sync::OnceLock<Ctl> = std::sync::OnceLock::new();
    C.get_or_init(|| {
        let c = Ctl {
            trace: Mutex::new(None),
            kill: Mutex::new(None),
            pause: Mutex::new(None),
            paused: Mutex::new(false),
            paused_cv: Condvar::new(),
            release: Mutex::new(false),
            release_cv: Condvar::new(),
            hits: AtomicUsize::new(0),
        };
        verif::set_hook(Some(Box::new(hook)));
        HOOK_ON.store(true, Ordering::Relaxed);
        c
    })
}

fn hook(name: &'static str) {
    let c = ctl();
    if let Some(t) = c.trace.lock().unwrap().as_mut() {
        t.push(name);
    }
    let kill_now = {
        let mut k = c.kill.lock().unwrap();
        match k.as_mut() {
            Some((p, n)) if p == name => {
                if *n <= 1 {
                    true
                } else {
                    *n -= 1;
                    false
                }
            }
            _ => false,
        }
    };
    if kill_now {
        // the process dies here: no destructors, no flushes (page cache survives, like kill -9)
        unsafe { libc::_exit(77) };
    }
    let pause_now = {
        let mut p = c.pause.lock().unwrap();
        match p.as_mut() {
            Some((pt, n, tid)) if pt == name && *tid == std::thread::current().id() => {
                if *n <= 1 {
                    *p = None;
                    true
                } else {
                    *n -= 1;
                    false
                }
            }
            _ => false,
        }
    };
    if pause_now {
        {
            let mut g = c.paused.lock().unwrap();
            *g = true;
            c.paused_cv.notify_all();
        }
        let mut r = c.release.lock().unwrap();
        while !*r {
            r = c.release_cv.wait(r).unwrap();
        }
    }
    let _ = c.hits.fetch_add(1, Ordering::Relaxed);
}

/// a yield point of the harness itself (not of pocket-db): same tracing / pausing / killing as the library's
pub fn user_point(name: &'static str) {
    if HOOK_ON.load(Ordering::Relaxed) {
        hook(name);
    }
}

static HOOK_ON: std::sync::atomic::AtomicBool = std::sync::atomic::AtomicBool::new(false);

fn run_req(st: &St, line: &[&str]) -> Result<String, String> {
    let store = st.store.as_ref().ok_or("nostore")?;
    store_req(store, line[0], &line[1..])
}

pub fn handle(st: &mut St, cmd: &str, a: &[&str]) -> Result<String, String> {
    let c = ctl();
    match cmd {
        "TRC" => {
            *c.trace.lock().unwrap() = Some(vec![]);
            let r = if a[0] == "NEW" || a[0] == "OPN" {
                // creation / open: traced through the top-level handler
                crate::handle_pub(st, &a.join(" "))
            } else {
                run_req(st, a)
            };
            let t = c.trace.lock().unwrap().take().unwrap_or_default();
            Ok(format!("{} | {}", r?, if t.is_empty() { "-".to_string() } else { t.join(",") }))
        }
        "KIL" => {
            let point = a[0].to_string();
            let n: usize = a[1].parse().map_err(|_| "n".to_string())?;
            *c.kill.lock().unwrap() = Some((point, n));
            let r = if a[2] == "NEW" || a[2] == "OPN" {
                crate::handle_pub(st, &a[2..].join(" "))
            } else {
                run_req(st, &a[2..])
            };
            *c.kill.lock().unwrap() = None;
            Ok(format!("survived {}", r?))
        }
        "MLN" => {
            let d = st.dir.clone().ok_or("nodir")?;
            let m = std::fs::metadata(d.join("event.map")).map_err(|e| e.to_string())?;
            Ok(format!("{}", m.len()))
        }
        "CON" => {
            // CON <point> <n> A <request…> B <request…>
            let point = a[0].to_string();
            // <n> or <n>:<ms>: how long B is given to finish while A is paused (default 150 ms)
            let (ns, ms) = match a[1].split_once(':') {
                Some((x, y)) => (x, y.parse::<u64>().map_err(|_| "ms".to_string())?),
                None => (a[1], 150u64),
            };
            let n: usize = ns.parse().map_err(|_| "n".to_string())?;
            let bpos = a.iter().position(|x| *x == "B").ok_or("noB")?;
            if a[2] != "A" {
                return Err("noA".into());
            }
            let ra: Vec<String> = a[3..bpos].iter().map(|s| s.to_string()).collect();
            let rb: Vec<String> = a[bpos + 1..].iter().map(|s| s.to_string()).collect();
            let store = st.store.take().ok_or("nostore")?;
            let store = Arc::new(store);
            *c.paused.lock().unwrap() = false;
            *c.release.lock().unwrap() = false;
            let sa = store.clone();
            let (txa, rxa) = std::sync::mpsc::channel();
            let pa = point.clone();
            let ha = std::thread::spawn(move || {
                *ctl().pause.lock().unwrap() = Some((pa, n, std::thread::current().id()));
                let v: Vec<&str> = ra.iter().map(|s| s.as_str()).collect();
                let r = std::panic::catch_unwind(std::panic::AssertUnwindSafe(|| store_req(&sa, v[0], &v[1..])));
                *ctl().pause.lock().unwrap() = None;
                let _ = txa.send(match r {
                    Ok(Ok(s)) => s,
                    Ok(Err(e)) => format!("bad-request {}", e),
                    Err(_) => "panic".to_string(),
                });
            });
            // wait until A is paused (or has finished without reaching the point)
            let mut a_done: Option<String> = None;
            let mut reached = false;
            for _ in 0..400 {
                {
                    let g = c.paused.lock().unwrap();
                    if *g {
                        reached = true;
                        break;
                    }
                }
                if let Ok(r) = rxa.try_recv() {
                    a_done = Some(r);
                    break;
                }
                std::thread::sleep(Duration::from_millis(1));
            }
            // run B
            let sb = store.clone();
            let (txb, rxb) = std::sync::mpsc::channel();
            let hb = std::thread::spawn(move || {
                let v: Vec<&str> = rb.iter().map(|s| s.as_str()).collect();
                let r = std::panic::catch_unwind(std::panic::AssertUnwindSafe(|| store_req(&sb, v[0], &v[1..])));
                let _ = txb.send(match r {
                    Ok(Ok(s)) => s,
                    Ok(Err(e)) => format!("bad-request {}", e),
                    Err(_) => "panic".to_string(),
                });
            });
            let (b_reply, b_blocked) = match rxb.recv_timeout(Duration::from_millis(ms)) {
                Ok(r) => (Some(r), false),
                Err(_) => (None, true),
            };
            // release A
            {
                let mut r = c.release.lock().unwrap();
                *r = true;
                c.release_cv.notify_all();
            }
            let a_reply = match a_done {
                Some(r) => r,
                None => rxa.recv_timeout(Duration::from_secs(10)).unwrap_or_else(|_| "HUNG".to_string()),
            };
            let b_reply = match b_reply {
                Some(r) => r,
                None => rxb.recv_timeout(Duration::from_secs(10)).unwrap_or_else(|_| "HUNG".to_string()),
            };
            let _ = ha.join();
            let _ = hb.join();
            *c.release.lock().unwrap() = false;
            *c.paused.lock().unwrap() = false;
            match Arc::try_unwrap(store) {
                Ok(s) => st.store = Some(s),
                Err(_) => return Err("store still shared".into()),
            }
            Ok(format!(
                "A=[{}] B=[{}] reached={} b_blocked={}",
                crate::strip_now(&a_reply),
                crate::strip_now(&b_reply),
                reached as u8,
                b_blocked as u8
            ))
        }
        "STRESS" => {
            // STRESS <threads> <iters> <seed>: writers submit events from a small universe (same
            // ids, same replaceable addresses); readers loop on lookups.  Reports per-id success
            // counts and the final retrievable holders per address.
            let threads: usize = a[0].parse().map_err(|_| "threads".to_string())?;
            let iters: usize = a[1].parse().map_err(|_| "iters".to_string())?;
            let seed: u64 = a[2].parse().map_err(|_| "seed".to_string())?;
            let store = Arc::new(st.store.take().ok_or("nostore")?);
            let oks: Arc<Vec<AtomicUsize>> = Arc::new((0..64).map(|_| AtomicUsize::new(0)).collect());
            let bad = Arc::new(AtomicUsize::new(0));
            let mut hs = vec![];
            for t in 0..threads {
                let s = store.clone();
                let oks = oks.clone();
                let bad = bad.clone();
                hs.push(std::thread::spawn(move || {
                    let mut x = seed.wrapping_add(t as u64 * 7919) | 1;
                    let mut rnd = || {
                        x ^= x << 13;
                        x ^= x >> 7;
                        x ^= x << 17;
                        x
                    };
                    for _ in 0..iters {
                        let k = (rnd() % 64) as usize;
                        let idh = crate::hex(&[(k + 1) as u8; 32]);
                        if t % 4 == 3 {
                            // reader: the event, if visible, must be whole
                            match store_req(&s, "GID", &[&idh]) {
                                Ok(r) => {
                                    if r.starts_with("some") {
                                        let b = crate::unhex(&r[5..]).unwrap_or_default();
                                        if b.len() < 152 || b[16..48] != [(k + 1) as u8; 32] {
                                            let _ = bad.fetch_add(1, Ordering::Relaxed);
                                        }
                                    } else if r != "none" {
                                        let _ = bad.fetch_add(1, Ordering::Relaxed);
                                    }
                                }
                                Err(_) => {
                                    let _ = bad.fetch_add(1, Ordering::Relaxed);
                                }
                            }
                            continue;
                        }
                        // writers: id k is always the same event; kinds 0/1/10000/30000 by k
                        let kind = [1u32, 0, 10000, 30000][k % 4];
                        let pk = crate::hex(&[0xa0 + (k % 2) as u8; 32]);
                        let ts = 100 + (k / 4) as u64;
                        let tags = if kind == 30000 { "64,78" } else { "_" };
                        let content = crate::hex(&vec![k as u8; 40 + 37 * (k % 7)]);
                        let r = store_req(&s, "STO", &[&idh, &pk, &kind.to_string(), &ts.to_string(), tags, &content]);
                        match r {
                            Ok(r) if r.starts_with("ok") => {
                                let _ = oks[k].fetch_add(1, Ordering::Relaxed);
                            }
                            Ok(r) if r == "dup" || r == "replaced" || r == "deleted" => {}
                            _ => {
                                let _ = bad.fetch_add(1, Ordering::Relaxed);
                            }
                        }
                    }
                }));
            }
            for h in hs {
                let _ = h.join();
            }
            let store = Arc::try_unwrap(store).map_err(|_| "store still shared".to_string())?;
            let counts: Vec<String> = oks.iter().map(|c| c.load(Ordering::Relaxed).to_string()).collect();
            st.store = Some(store);
            Ok(format!("ok bad={} oks={}", bad.load(Ordering::Relaxed), counts.join(",")))
        }
        _ => Err(format!("unsupported {}", cmd)),
    }
}
