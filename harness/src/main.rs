// pocket-worker: executes line-protocol requests against the real pocket-types / pocket-db code.
// One request per line on stdin, one reply per line on stdout (see DESIGN.md Appendix B).
// Every request runs under catch_unwind; aborts (stack overflow, OOM) kill the process and are
// observed from outside by the orchestrator, which restarts the worker after the offending line.

use pocket_db::{InnerError as DbInner, ScreenResult, Store};
use pocket_types::{
    Addr, Event, Filter, Hll8, Id, Kind, OwnedEvent, OwnedFilter, OwnedTags, Pubkey, Sig, Tags,
    Time,
};
use std::io::{BufRead, Write};
use std::panic::{catch_unwind, AssertUnwindSafe};

mod conc;

pub const GUARD: usize = 64;

pub fn hex(b: &[u8]) -> String {
    if b.is_empty() {
        return "-".to_string();
    }
    const H: &[u8; 16] = b"0123456789abcdef";
    let mut s = String::with_capacity(b.len() * 2);
    for x in b {
        s.push(H[(x >> 4) as usize] as char);
        s.push(H[(x & 15) as usize] as char);
    }
    s
}

pub fn unhex(s: &str) -> Result<Vec<u8>, String> {
    if s == "-" {
        return Ok(vec![]);
    }
    let b = s.as_bytes();
    if b.len() % 2 != 0 {
        return Err("odd hex".into());
    }
    let v = |c: u8| -> Result<u8, String> {
        match c {
            b'0'..=b'9' => Ok(c - b'0'),
            b'a'..=b'f' => Ok(c - b'a' + 10),
            b'A'..=b'F' => Ok(c - b'A' + 10),
            _ => Err("bad hex".into()),
        }
    };
    let mut out = Vec::with_capacity(b.len() / 2);
    for i in 0..b.len() / 2 {
        out.push(v(b[2 * i])? * 16 + v(b[2 * i + 1])?);
    }
    Ok(out)
}

// xorshift64 stream shared with the Lean driver: the "dirty" caller buffer.
pub fn fill(seed: u64, buf: &mut [u8]) {
    let mut x: u64 = seed | 1;
    for b in buf.iter_mut() {
        x ^= x << 13;
        x ^= x >> 7;
        x ^= x << 17;
        *b = (x & 0xff) as u8;
    }
}

// A caller buffer of `len` bytes with GUARD bytes on each side that must stay untouched.
pub struct Guarded {
    raw: Vec<u8>,
    len: usize,
}
impl Guarded {
    pub fn new(len: usize, seed: u64) -> Guarded {
        let mut raw = vec![0xA5u8; len + 2 * GUARD];
        fill(seed, &mut raw[GUARD..GUARD + len]);
        Guarded { raw, len }
    }
    pub fn buf(&mut self) -> &mut [u8] {
        let l = self.len;
        &mut self.raw[GUARD..GUARD + l]
    }
    pub fn view(&self) -> &[u8] {
        &self.raw[GUARD..GUARD + self.len]
    }
    pub fn guards_ok(&self) -> bool {
        self.raw[..GUARD].iter().all(|b| *b == 0xA5)
            && self.raw[GUARD + self.len..].iter().all(|b| *b == 0xA5)
    }
}

// tags token: `_` = no tags; tags joined by `;`; a tag is `.` (no strings) or strings joined by
// `,`; a string is hex or `-` (empty).
pub fn parse_tags_token(tok: &str) -> Result<Vec<Vec<Vec<u8>>>, String> {
    if tok == "_" {
        return Ok(vec![]);
    }
    let mut tags = vec![];
    for t in tok.split(';') {
        if t == "." {
            tags.push(vec![]);
            continue;
        }
        let mut strs = vec![];
        for s in t.split(',') {
            strs.push(unhex(s)?);
        }
        tags.push(strs);
    }
    Ok(tags)
}

pub fn tags_token(tags: &[Vec<Vec<u8>>]) -> String {
    if tags.is_empty() {
        return "_".into();
    }
    tags.iter()
        .map(|t| {
            if t.is_empty() {
                ".".to_string()
            } else {
                t.iter().map(|s| hex(s)).collect::<Vec<_>>().join(",")
            }
        })
        .collect::<Vec<_>>()
        .join(";")
}

pub fn owned_tags(parts: &[Vec<Vec<u8>>]) -> Result<OwnedTags, String> {
    let mut sp: Vec<Vec<&str>> = vec![];
    for t in parts {
        let mut v = vec![];
        for s in t {
            v.push(std::str::from_utf8(s).map_err(|_| "nonutf8".to_string())?);
        }
        sp.push(v);
    }
    OwnedTags::new(&sp).map_err(|_| "err".to_string())
}

pub fn arr32(b: &[u8]) -> Result<[u8; 32], String> {
    b.try_into().map_err(|_| "len32".to_string())
}

pub fn list32(tok: &str) -> Result<Vec<[u8; 32]>, String> {
    if tok == "_" {
        return Ok(vec![]);
    }
    tok.split(',').map(|s| arr32(&unhex(s)?)).collect()
}

pub fn list_u16(tok: &str) -> Result<Vec<u16>, String> {
    if tok == "_" {
        return Ok(vec![]);
    }
    tok.split(',')
        .map(|s| s.parse::<u16>().map_err(|e| e.to_string()))
        .collect()
}

pub fn opt_u64(tok: &str) -> Result<Option<u64>, String> {
    if tok == "-" {
        Ok(None)
    } else {
        tok.parse::<u64>().map(Some).map_err(|e| e.to_string())
    }
}

pub fn event_tags_nested(tags: &Tags) -> Vec<Vec<Vec<u8>>> {
    tags.iter()
        .map(|t| t.map(|s| s.to_vec()).collect())
        .collect()
}

fn event_accessors(e: &Event) -> String {
    // every accessor, both tag access paths, and the serializer
    let tags = match e.tags() {
        Ok(t) => t,
        Err(_) => return "tagserr".into(),
    };
    let nested = event_tags_nested(tags);
    // cross-check get_string against the iterators
    let mut gs_ok = true;
    for (i, t) in nested.iter().enumerate() {
        for (j, s) in t.iter().enumerate() {
            if tags.get_string(i, j) != Some(&s[..]) {
                gs_ok = false;
            }
        }
        if tags.get_string(i, t.len()).is_some() {
            gs_ok = false;
        }
    }
    if tags.get_string(nested.len(), 0).is_some() {
        gs_ok = false;
    }
    let json = match e.as_json() {
        Ok(j) => hex(&j),
        Err(_) => "jsonerr".into(),
    };
    // the remaining public methods: called for totality only (clock-dependent or formatting output)
    let _ = e.is_expired();
    let _ = e.to_owned();
    let _ = format!("{}", e);
    let _ = e.len();
    format!(
        "ok {} {} {} {} {} {} {} {} gs={}",
        hex(e.id().as_slice()),
        hex(e.pubkey().as_slice()),
        hex(e.sig().as_slice()),
        e.kind().as_u16(),
        e.created_at().as_u64(),
        tags_token(&nested),
        hex(e.content()),
        json,
        gs_ok as u8
    )
}

fn filter_accessors(f: &Filter) -> String {
    let ids: Vec<String> = f.ids().map(|i| hex(i.as_slice())).collect();
    let authors: Vec<String> = f.authors().map(|i| hex(i.as_slice())).collect();
    let kinds: Vec<String> = f.kinds().map(|k| k.as_u16().to_string()).collect();
    let tags = match f.tags() {
        Ok(t) => t,
        Err(_) => return "tagserr".into(),
    };
    let nested = event_tags_nested(tags);
    let json = match f.as_json() {
        Ok(j) => hex(&j),
        Err(_) => "jsonerr".into(),
    };
    let j = |v: Vec<String>| if v.is_empty() { "_".to_string() } else { v.join(",") };
    let _ = f.completes();
    let _ = f.to_owned();
    let _ = format!("{}", f);
    let _ = f.len();
    let hll = match f.hyperloglog_offset() {
        Ok(Some(n)) => n.to_string(),
        Ok(None) => "none".to_string(),
        Err(_) => "err".to_string(),
    };
    format!(
        "ok {} {} {} {} {} {} {} {} n={},{},{} hll={}",
        j(ids),
        j(authors),
        j(kinds),
        tags_token(&nested),
        f.since().as_u64(),
        f.until().as_u64(),
        f.limit(),
        json,
        f.num_ids(),
        f.num_authors(),
        f.num_kinds(),
        hll
    )
}

pub fn build_event(a: &[&str]) -> Result<OwnedEvent, String> {
    // id pk kind t tags content [sig]
    if a.len() < 6 {
        return Err("args".into());
    }
    let id = Id::from_bytes(arr32(&unhex(a[0])?)?);
    let pk = Pubkey::from_bytes(arr32(&unhex(a[1])?)?);
    let kind = Kind::from_u16(a[2].parse::<u16>().map_err(|e| e.to_string())?);
    let t = Time::from_u64(a[3].parse::<u64>().map_err(|e| e.to_string())?);
    let tags = owned_tags(&parse_tags_token(a[4])?)?;
    let content = unhex(a[5])?;
    let sig = if a.len() > 6 {
        let s = unhex(a[6])?;
        let arr: [u8; 64] = s[..].try_into().map_err(|_| "len64".to_string())?;
        Sig::from_bytes(arr)
    } else {
        Sig::from_bytes([0u8; 64])
    };
    OwnedEvent::new(id, kind, pk, sig, &tags, t, &content).map_err(|_| "err".to_string())
}

pub fn build_filter(a: &[&str]) -> Result<OwnedFilter, String> {
    // ids authors kinds tags since until limit
    if a.len() < 7 {
        return Err("args".into());
    }
    let ids: Vec<Id> = list32(a[0])?.into_iter().map(Id::from_bytes).collect();
    let authors: Vec<Pubkey> = list32(a[1])?.into_iter().map(Pubkey::from_bytes).collect();
    let kinds: Vec<Kind> = list_u16(a[2])?.into_iter().map(Kind::from_u16).collect();
    let tags = owned_tags(&parse_tags_token(a[3])?)?;
    let since = opt_u64(a[4])?.map(Time::from_u64);
    let until = opt_u64(a[5])?.map(Time::from_u64);
    let limit = opt_u64(a[6])?.map(|l| l as u32);
    OwnedFilter::new(&ids, &authors, &kinds, &tags, since, until, limit)
        .map_err(|_| "err".to_string())
}

fn fnv(h: &mut u64, b: &[u8]) {
    for x in b {
        *h ^= *x as u64;
        *h = h.wrapping_mul(0x100000001b3);
    }
}

pub struct St {
    pub store: Option<Store>,
    pub dir: Option<std::path::PathBuf>,
    pub tables: Vec<&'static str>,
}

fn db_err_class(e: &pocket_db::Error) -> &'static str {
    match e.inner {
        DbInner::Duplicate => "dup",
        DbInner::Deleted => "deleted",
        DbInner::Replaced => "replaced",
        DbInner::InvalidDelete => "invalid",
        DbInner::Scraper => "scraper",
        DbInner::WrongEventKind => "wrongkind",
        _ => "err",
    }
}

pub fn screen_fn(mode: &str) -> impl Fn(&Event) -> ScreenResult + '_ {
    move |e: &Event| {
        // a yield point inside a running query (the caller's screening callback), for the schedule controller
        crate::conc::user_point("screen:call");
        screen_mode(mode, e)
    }
}

fn screen_mode(mode: &str, e: &Event) -> ScreenResult {
    match mode {
        "p" => match e.id().as_slice()[31] % 3 {
            0 => ScreenResult::Match,
            1 => ScreenResult::Mismatch,
            _ => ScreenResult::Redacted,
        },
        "x" => ScreenResult::Mismatch,
        "r" => ScreenResult::Redacted,
        _ => ScreenResult::Match,
    }
}

pub fn store_req(store: &Store, cmd: &str, a: &[&str]) -> Result<String, String> {
    match cmd {
        "SEQ" => {
            // several requests in a row on one thread, separated by ";;": replies joined by " ;; "
            let mut out = vec![];
            for part in a.split(|x| *x == ";;") {
                if part.is_empty() {
                    continue;
                }
                out.push(store_req(store, part[0], &part[1..])?);
            }
            Ok(out.join(" ;; "))
        }
        // answered by the model only (the state of the Lean abstract store); the real store has nothing to say
        "SPC" => Ok("-".into()),
        "RDF" => {
            // fault injection: run the nested request while `n` read transactions are held open (LMDB has 126 reader
            // slots; with NO_TLS every open read transaction takes one): a lookup the nested request starts then fails
            let n: usize = a[0].parse().map_err(|_| "n".to_string())?;
            let mut held = vec![];
            for _ in 0..n {
                match store.read_txn() {
                    Ok(t) => held.push(t),
                    Err(_) => break,
                }
            }
            let r = store_req(store, a[1], &a[2..]);
            let k = held.len();
            drop(held);
            r.map(|x| format!("held={} {}", k, x))
        }
        "STO" => {
            let ev = build_event(a)?;
            match store.store_event(&ev) {
                Ok(off) => Ok(format!("ok {}", off)),
                Err(e) => Ok(db_err_class(&e).to_string()),
            }
        }
        "STB" => {
            let bytes = unhex(a[0])?;
            let ev = unsafe { Event::delineate(&bytes) }.map_err(|_| "err".to_string())?;
            match store.store_event(ev) {
                Ok(off) => Ok(format!("ok {}", off)),
                Err(e) => Ok(db_err_class(&e).to_string()),
            }
        }
        "REM" => {
            let id = Id::from_bytes(arr32(&unhex(a[0])?)?);
            match store.remove_event(id) {
                Ok(()) => Ok("ok".into()),
                Err(e) => Ok(db_err_class(&e).to_string()),
            }
        }
        "VAN" => {
            let pkb = unhex(a[0])?;
            let z = hex(&[0u8; 32]);
            let pkh = hex(&pkb);
            let ev = build_event(&[&z, &pkh, "62", "0", "_", "-"])?;
            match store.vanish(&ev) {
                Ok(()) => Ok("ok".into()),
                Err(e) => Ok(db_err_class(&e).to_string()),
            }
        }
        "FND" => {
            // ids authors kinds tags since until limit allow lim secs screen
            if a.len() < 11 {
                return Err("args".into());
            }
            let f = build_filter(&a[0..7])?;
            let allow = a[7] == "1";
            let lim: u32 = a[8].parse().map_err(|_| "lim".to_string())?;
            let secs: u64 = a[9].parse().map_err(|_| "secs".to_string())?;
            let now0 = Time::now().as_u64();
            let r = store.find_events(&f, allow, lim, secs, screen_fn(a[10]));
            let now1 = Time::now().as_u64();
            match r {
                Ok((evs, red)) => {
                    let ids: Vec<String> = evs.iter().map(|e| hex(e.id().as_slice())).collect();
                    let l = if ids.is_empty() { "_".to_string() } else { ids.join(",") };
                    Ok(format!("ok {} r={} now={},{}", l, red as u8, now0, now1))
                }
                Err(e) => Ok(format!("{} now={},{}", db_err_class(&e), now0, now1)),
            }
        }
        "GID" => {
            let id = Id::from_bytes(arr32(&unhex(a[0])?)?);
            match store.get_event_by_id(id) {
                Ok(Some(e)) => Ok(format!("some {}", hex(e.as_bytes()))),
                Ok(None) => Ok("none".into()),
                Err(_) => Ok("err".into()),
            }
        }
        "HAS" => {
            let id = Id::from_bytes(arr32(&unhex(a[0])?)?);
            match store.has_event(id) {
                Ok(b) => Ok(format!("{}", b as u8)),
                Err(_) => Ok("err".into()),
            }
        }
        "DEL" => {
            let id = Id::from_bytes(arr32(&unhex(a[0])?)?);
            match store.event_is_deleted(id) {
                Ok(b) => Ok(format!("{}", b as u8)),
                Err(_) => Ok("err".into()),
            }
        }
        "OFF" => {
            let off: u64 = a[0].parse().map_err(|_| "off".to_string())?;
            match store.get_event_by_offset(off) {
                Ok(e) => Ok(format!("some {}", hex(e.as_bytes()))),
                Err(_) => Ok("err".into()),
            }
        }
        "PTR" => {
            let off: u64 = a[0].parse().map_err(|_| "off".to_string())?;
            match store.get_event_by_offset(off) {
                Ok(e) => Ok(format!("ptr {} {}", e.as_bytes().as_ptr() as usize, e.len())),
                Err(_) => Ok("err".into()),
            }
        }
        "NAD" => {
            let addr = Addr {
                kind: Kind::from_u16(a[0].parse().map_err(|_| "kind".to_string())?),
                author: Pubkey::from_bytes(arr32(&unhex(a[1])?)?),
                d: unhex(a[2])?,
            };
            match store.naddr_is_deleted_asof(&addr) {
                Ok(Some(t)) => Ok(format!("some {}", t.as_u64())),
                Ok(None) => Ok("none".into()),
                Err(_) => Ok("err".into()),
            }
        }
        "FRP" => {
            let pk = Pubkey::from_bytes(arr32(&unhex(a[0])?)?);
            let kind = Kind::from_u16(a[1].parse().map_err(|_| "kind".to_string())?);
            match store.find_replaceable_event(pk, kind) {
                Ok(Some(e)) => Ok(format!("some {}", hex(e.id().as_slice()))),
                Ok(None) => Ok("none".into()),
                Err(e) => Ok(db_err_class(&e).to_string()),
            }
        }
        "FPR" => {
            let addr = Addr {
                kind: Kind::from_u16(a[0].parse().map_err(|_| "kind".to_string())?),
                author: Pubkey::from_bytes(arr32(&unhex(a[1])?)?),
                d: unhex(a[2])?,
            };
            match store.find_parameterized_replaceable_event(&addr) {
                Ok(Some(e)) => Ok(format!("some {}", hex(e.id().as_slice()))),
                Ok(None) => Ok("none".into()),
                Err(e) => Ok(db_err_class(&e).to_string()),
            }
        }
        "KYS" => match store.verif_dump_keys() {
            Ok(keys) => {
                let parts: Vec<String> = keys.iter().map(|(t, k)| format!("{}:{}", t, hex(k))).collect();
                Ok(format!("ok {}", if parts.is_empty() { "_".to_string() } else { parts.join(",") }))
            }
            Err(_) => Ok("err".into()),
        },
        "STA" => match store.stats() {
            Ok(s) => {
                let i = &s.index_stats;
                let mut custom: Vec<String> = i
                    .custom_entries
                    .iter()
                    .map(|(n, c)| format!("{}:{}", n, c))
                    .collect();
                custom.sort();
                Ok(format!(
                    "end={} general={} i={} ci={} tc={} ac={} akc={} atc={} ktc={} del={} naddr={} custom={}",
                    s.event_bytes,
                    i.general_entries,
                    i.i_index_entries,
                    i.ci_index_entries,
                    i.tc_index_entries,
                    i.ac_index_entries,
                    i.akc_index_entries,
                    i.atc_index_entries,
                    i.ktc_index_entries,
                    i.deleted_index_entries,
                    i.deleted_naddr_index_entries,
                    if custom.is_empty() { "_".to_string() } else { custom.join(",") }
                ))
            }
            Err(_) => Ok("err".into()),
        },
        "XPT" => {
            // table key val
            let name = a[0];
            let key = unhex(a[1])?;
            let val = unhex(a[2])?;
            let tname = leak_name(name);
            match store.extra_table(tname) {
                None => Ok("notable".into()),
                Some(db) => {
                    let mut txn = store.write_txn().map_err(|_| "err".to_string())?;
                    match db.put(&mut txn, &key, &val) {
                        Ok(()) => {
                            txn.commit().map_err(|_| "err".to_string())?;
                            Ok("ok".into())
                        }
                        Err(_) => Ok("err".into()),
                    }
                }
            }
        }
        "XDL" => {
            let tname = leak_name(a[0]);
            let key = unhex(a[1])?;
            match store.extra_table(tname) {
                None => Ok("notable".into()),
                Some(db) => {
                    let mut txn = store.write_txn().map_err(|_| "err".to_string())?;
                    match db.delete(&mut txn, &key) {
                        Ok(_) => {
                            txn.commit().map_err(|_| "err".to_string())?;
                            Ok("ok".into())
                        }
                        Err(_) => Ok("err".into()),
                    }
                }
            }
        }
        "XDP" => {
            let tname = leak_name(a[0]);
            match store.extra_table(tname) {
                None => Ok("notable".into()),
                Some(db) => {
                    let txn = store.read_txn().map_err(|_| "err".to_string())?;
                    let mut rows = vec![];
                    for e in db.iter(&txn).map_err(|_| "err".to_string())? {
                        let (k, v) = e.map_err(|_| "err".to_string())?;
                        rows.push(format!("{}={}", hex(k), hex(v)));
                    }
                    Ok(format!("rows {}", if rows.is_empty() { "_".to_string() } else { rows.join(",") }))
                }
            }
        }
        _ => Err(format!("unknown store request {}", cmd)),
    }
}

fn leak_name(n: &str) -> &'static str {
    // table names must be 'static; a handful of distinct names per run
    static NAMES: std::sync::Mutex<Vec<&'static str>> = std::sync::Mutex::new(Vec::new());
    let mut g = NAMES.lock().unwrap();
    for x in g.iter() {
        if *x == n {
            return x;
        }
    }
    let s: &'static str = Box::leak(n.to_string().into_boxed_str());
    g.push(s);
    s
}

pub fn strip_now(r: &str) -> String {
    match r.find(" now=") {
        Some(i) => r[..i].to_string(),
        None => r.to_string(),
    }
}

pub fn handle_pub(st: &mut St, line: &str) -> Result<String, String> {
    handle(st, line)
}

fn handle(st: &mut St, line: &str) -> Result<String, String> {
    let mut it = line.split(' ');
    let cmd = it.next().unwrap_or("");
    let a: Vec<&str> = it.collect();
    match cmd {
        "PING" => Ok("pong".into()),
        "EVJ" => {
            let json = unhex(a[0])?;
            let len: usize = a[1].parse().map_err(|_| "len".to_string())?;
            let seed: u64 = a[2].parse().map_err(|_| "seed".to_string())?;
            let mut g = Guarded::new(len, seed);
            let r = Event::from_json(&json, g.buf()).map(|(c, e)| (c, e.len()));
            let gok = g.guards_ok();
            if !gok {
                return Ok("GUARD".into());
            }
            match r {
                Ok((c, l)) => Ok(format!("ok {} {} {}", c, l, hex(g.view()))),
                Err(_) => Ok("err".into()),
            }
        }
        "EQL" => {
            // two JSON texts parsed into two buffers that start at different addresses modulo 8 and hold different
            // garbage: the values must be byte-identical AND compare equal (==, Hash), as must their tag sections
            // and the owned event built from the first one's parts
            use std::hash::{Hash, Hasher};
            let t1 = unhex(a[0])?;
            let t2 = unhex(a[1])?;
            let seed: u64 = a[2].parse().map_err(|_| "seed".to_string())?;
            let (o1, o2) = ((seed % 8) as usize, ((seed / 8) % 8) as usize);
            let n = t1.len().max(t2.len()) + 4096;
            let mut b1 = vec![0u8; n + 8];
            let mut b2 = vec![0u8; n + 8];
            fill(seed ^ 0x5555, &mut b1);
            fill(seed ^ 0xaaaa, &mut b2);
            let r1 = Event::from_json(&t1, &mut b1[o1..]).map(|(_, e)| e.len());
            let r2 = Event::from_json(&t2, &mut b2[o2..]).map(|(_, e)| e.len());
            match (r1, r2) {
                (Ok(l1), Ok(l2)) => {
                    let e1 = unsafe { Event::delineate(&b1[o1..o1 + l1]) }.map_err(|_| "delin".to_string())?;
                    let e2 = unsafe { Event::delineate(&b2[o2..o2 + l2]) }.map_err(|_| "delin".to_string())?;
                    let h = |e: &Event| {
                        let mut s = std::collections::hash_map::DefaultHasher::new();
                        e.hash(&mut s);
                        s.finish()
                    };
                    let teq = match (e1.tags(), e2.tags()) {
                        (Ok(x), Ok(y)) => x == y,
                        _ => false,
                    };
                    let own = match e1.tags() {
                        Ok(tg) => {
                            let ot = tg.to_owned();
                            match OwnedEvent::new(e1.id(), e1.kind(), e1.pubkey(), e1.sig(), &ot, e1.created_at(), e1.content()) {
                                Ok(o) => {
                                    let oe: &Event = &o;
                                    oe == e2 && e1.to_owned() == o
                                }
                                Err(_) => false,
                            }
                        }
                        Err(_) => false,
                    };
                    Ok(format!(
                        "ok eq={} hash={} teq={} own={} bytes={}",
                        (e1 == e2) as u8,
                        (h(e1) == h(e2)) as u8,
                        teq as u8,
                        own as u8,
                        (e1.as_bytes() == e2.as_bytes()) as u8
                    ))
                }
                _ => Ok("err".into()),
            }
        }
        "DLN" => {
            // Event::delineate on a slice of <total> bytes that starts with the given event bytes (the rest zero):
            // what get_event_by_offset hands it when <total - len> bytes of later events follow in the map
            let b = unhex(a[0])?;
            let total: usize = a[1].parse().map_err(|_| "len".to_string())?;
            if total < b.len() {
                return Ok("bad-request".into());
            }
            let mut v = vec![0u8; total];
            v[..b.len()].copy_from_slice(&b);
            match unsafe { Event::delineate(&v) } {
                Ok(e) => Ok(format!("ok {}", e.as_bytes().len())),
                Err(_) => Ok("err".into()),
            }
        }
        "EVA" => {
            let b = unhex(a[0])?;
            match unsafe { Event::delineate(&b) } {
                Ok(e) => Ok(event_accessors(e)),
                Err(_) => Ok("delineate-err".into()),
            }
        }
        "EVP" => {
            // id pk kind t tags content sig buflen seed
            let id = Id::from_bytes(arr32(&unhex(a[0])?)?);
            let pk = Pubkey::from_bytes(arr32(&unhex(a[1])?)?);
            let kind = Kind::from_u16(a[2].parse::<u16>().map_err(|e| e.to_string())?);
            let t = Time::from_u64(a[3].parse::<u64>().map_err(|e| e.to_string())?);
            let parts = parse_tags_token(a[4])?;
            let content = unhex(a[5])?;
            let sigb = unhex(a[6])?;
            let sig = Sig::from_bytes(sigb[..].try_into().map_err(|_| "len64".to_string())?);
            let len: usize = a[7].parse().map_err(|_| "len".to_string())?;
            let seed: u64 = a[8].parse().map_err(|_| "seed".to_string())?;
            let tags = match owned_tags(&parts) {
                Ok(t) => t,
                Err(e) => return Ok(format!("tags-{}", e)),
            };
            // the owned constructor must agree with the borrowed one
            let owned = OwnedEvent::new(id, kind, pk, sig, &tags, t, &content);
            let mut g = Guarded::new(len, seed);
            let r = Event::from_parts(id, kind, pk, sig, &tags, t, &content, g.buf()).map(|e| e.len());
            if !g.guards_ok() {
                return Ok("GUARD".into());
            }
            match r {
                Ok(l) => {
                    let same = match &owned {
                        Ok(o) => (o.as_bytes() == &g.view()[..l]) as u8,
                        Err(_) => 2,
                    };
                    Ok(format!("ok {} {} owned={}", l, hex(g.view()), same))
                }
                Err(_) => Ok(format!("err owned={}", owned.is_ok() as u8)),
            }
        }
        "TGJ" => {
            let json = unhex(a[0])?;
            let len: usize = a[1].parse().map_err(|_| "len".to_string())?;
            let seed: u64 = a[2].parse().map_err(|_| "seed".to_string())?;
            let mut g = Guarded::new(len, seed);
            let r = Tags::from_json(&json, g.buf()).map(|(c, t)| (c, t.as_bytes().len()));
            if !g.guards_ok() {
                return Ok("GUARD".into());
            }
            match r {
                Ok((c, l)) => Ok(format!("ok {} {} {}", c, l, hex(g.view()))),
                Err(_) => Ok("err".into()),
            }
        }
        "TGP" => {
            let parts = parse_tags_token(a[0])?;
            let len: usize = a[1].parse().map_err(|_| "len".to_string())?;
            let seed: u64 = a[2].parse().map_err(|_| "seed".to_string())?;
            let mut sp: Vec<Vec<&str>> = vec![];
            for t in &parts {
                let mut v = vec![];
                for s in t {
                    v.push(std::str::from_utf8(s).map_err(|_| "nonutf8".to_string())?);
                }
                sp.push(v);
            }
            let owned = OwnedTags::new(&sp);
            let mut g = Guarded::new(len, seed);
            let r = Tags::from_parts(&sp, g.buf()).map(|t| t.as_bytes().len());
            if !g.guards_ok() {
                return Ok("GUARD".into());
            }
            match r {
                Ok(l) => {
                    let same = match &owned {
                        Ok(o) => (o.as_bytes() == &g.view()[..l]) as u8,
                        Err(_) => 2,
                    };
                    Ok(format!("ok {} {} owned={}", l, hex(g.view()), same))
                }
                Err(_) => Ok(format!("err owned={}", owned.is_ok() as u8)),
            }
        }
        "TGA" => {
            let b = unhex(a[0])?;
            match unsafe { Tags::delineate(&b) } {
                Ok(t) => {
                    let nested = event_tags_nested(t);
                    Ok(format!("ok {} {} {}", t.count(), tags_token(&nested), hex(&t.as_json())))
                }
                Err(_) => Ok("delineate-err".into()),
            }
        }
        "FLJ" => {
            let json = unhex(a[0])?;
            let len: usize = a[1].parse().map_err(|_| "len".to_string())?;
            let seed: u64 = a[2].parse().map_err(|_| "seed".to_string())?;
            let mut g = Guarded::new(len, seed);
            let r = Filter::from_json(&json, g.buf()).map(|(c, o, f)| (c, o, f.len()));
            if !g.guards_ok() {
                return Ok("GUARD".into());
            }
            match r {
                Ok((c, o, l)) => Ok(format!("ok {} {} {} l={}", c, o, hex(g.view()), l)),
                Err(_) => Ok("err".into()),
            }
        }
        "FLP" => {
            // ids authors kinds tags since until limit buflen seed
            let ids: Vec<Id> = list32(a[0])?.into_iter().map(Id::from_bytes).collect();
            let authors: Vec<Pubkey> = list32(a[1])?.into_iter().map(Pubkey::from_bytes).collect();
            let kinds: Vec<Kind> = list_u16(a[2])?.into_iter().map(Kind::from_u16).collect();
            let tags = match owned_tags(&parse_tags_token(a[3])?) {
                Ok(t) => t,
                Err(e) => return Ok(format!("tags-{}", e)),
            };
            let since = opt_u64(a[4])?.map(Time::from_u64);
            let until = opt_u64(a[5])?.map(Time::from_u64);
            let limit = opt_u64(a[6])?.map(|l| l as u32);
            let len: usize = a[7].parse().map_err(|_| "len".to_string())?;
            let seed: u64 = a[8].parse().map_err(|_| "seed".to_string())?;
            let owned = OwnedFilter::new(&ids, &authors, &kinds, &tags, since, until, limit);
            let mut g = Guarded::new(len, seed);
            let r = Filter::from_parts(&ids, &authors, &kinds, &tags, since, until, limit, g.buf())
                .map(|f| f.len());
            if !g.guards_ok() {
                return Ok("GUARD".into());
            }
            match r {
                Ok(l) => {
                    let same = match &owned {
                        Ok(o) => (o.as_bytes() == &g.view()[..l]) as u8,
                        Err(_) => 2,
                    };
                    Ok(format!("ok {} {} owned={}", l, hex(g.view()), same))
                }
                Err(_) => Ok(format!("err owned={}", owned.is_ok() as u8)),
            }
        }
        "FLA" => {
            let b = unhex(a[0])?;
            match unsafe { Filter::delineate(&b) } {
                Ok(f) => Ok(filter_accessors(f)),
                Err(_) => Ok("delineate-err".into()),
            }
        }
        "MAT" => {
            let fb = unhex(a[0])?;
            let eb = unhex(a[1])?;
            let f = unsafe { Filter::delineate(&fb) }.map_err(|_| "fdel".to_string())?;
            let e = unsafe { Event::delineate(&eb) }.map_err(|_| "edel".to_string())?;
            match f.event_matches(e) {
                Ok(b) => Ok(format!("ok {}", b as u8)),
                Err(_) => Ok("err".into()),
            }
        }
        "MTP" => {
            // filter parts (7) then event parts (6)
            let f = build_filter(&a[0..7])?;
            let e = build_event(&a[7..13])?;
            match f.event_matches(&e) {
                Ok(b) => Ok(format!("ok {}", b as u8)),
                Err(_) => Ok("err".into()),
            }
        }
        "UNE" => {
            let inp = unhex(a[0])?;
            let len: usize = a[1].parse().map_err(|_| "len".to_string())?;
            let seed: u64 = a[2].parse().map_err(|_| "seed".to_string())?;
            let mut g = Guarded::new(len, seed);
            let r = pocket_types::json::json_unescape(&inp, g.buf());
            if !g.guards_ok() {
                return Ok("GUARD".into());
            }
            match r {
                Ok((i, o)) => Ok(format!("ok {} {} {}", i, o, hex(g.view()))),
                Err(_) => Ok("err".into()),
            }
        }
        "ESC" => {
            let inp = unhex(a[0])?;
            match pocket_types::json::json_escape(&inp, Vec::new()) {
                Ok(o) => Ok(format!("ok {}", hex(&o))),
                Err(_) => Ok("err".into()),
            }
        }
        "HEX" => {
            let inp = unhex(a[1])?;
            match a[0] {
                "id" => match Id::read_hex(&inp) {
                    Ok(v) => Ok(format!("ok {} {}", hex(v.as_slice()), v.as_hex_string())),
                    Err(_) => Ok("err".into()),
                },
                "pk" => match Pubkey::read_hex(&inp) {
                    Ok(v) => Ok(format!("ok {} {}", hex(v.as_slice()), v.as_hex_string())),
                    Err(_) => Ok("err".into()),
                },
                "sig" => match Sig::read_hex(&inp) {
                    Ok(v) => Ok(format!("ok {} {}", hex(v.as_slice()), format!("{}", v))),
                    Err(_) => Ok("err".into()),
                },
                "hll" => {
                    let s = match std::str::from_utf8(&inp) {
                        Ok(s) => s,
                        Err(_) => return Ok("nonutf8".into()),
                    };
                    match Hll8::from_hex_string(s) {
                        Ok(h) => {
                            let ex = h.to_hex_string();
                            let est = h.estimate_count();
                            Ok(format!("ok {} {}", ex, est))
                        }
                        Err(_) => Ok("err".into()),
                    }
                }
                _ => Err("hexkind".into()),
            }
        }
        "ADR" => {
            let inp = unhex(a[0])?;
            match Addr::try_from_bytes(&inp) {
                Ok(ad) => Ok(format!(
                    "ok {} {} {}",
                    ad.kind.as_u16(),
                    hex(ad.author.as_slice()),
                    hex(&ad.d)
                )),
                Err(_) => Ok("err".into()),
            }
        }
        "KND" => {
            let lo: u32 = a[0].parse().map_err(|_| "lo".to_string())?;
            let hi: u32 = a[1].parse().map_err(|_| "hi".to_string())?;
            let mut h: u64 = 0xcbf29ce484222325;
            for k in lo..hi {
                let kd = Kind::from_u16(k as u16);
                let b = (kd.is_replaceable() as u8)
                    | ((kd.is_ephemeral() as u8) << 1)
                    | ((kd.is_parameterized_replaceable() as u8) << 2);
                fnv(&mut h, &[b]);
            }
            Ok(format!("{}", h))
        }
        "CPT" => {
            // for each code point c in [lo,hi): json_escape(utf8(c)) and json_unescape of it
            let lo: u32 = a[0].parse().map_err(|_| "lo".to_string())?;
            let hi: u32 = a[1].parse().map_err(|_| "hi".to_string())?;
            let mut h: u64 = 0xcbf29ce484222325;
            for c in lo..hi {
                let bytes = raw_utf8(c);
                match pocket_types::json::json_escape(&bytes, Vec::new()) {
                    Ok(o) => {
                        fnv(&mut h, &[1]);
                        fnv(&mut h, &o);
                    }
                    Err(_) => fnv(&mut h, &[0]),
                }
                let mut out = [0u8; 16];
                let mut q = bytes.clone();
                q.push(b'"');
                match pocket_types::json::json_unescape(&q, &mut out) {
                    Ok((i, o)) => {
                        fnv(&mut h, &[1, i as u8, o as u8]);
                        fnv(&mut h, &out[..o]);
                    }
                    Err(_) => fnv(&mut h, &[0]),
                }
                // \uXXXX spelling for the BMP
                if c < 0x10000 {
                    let esc = format!("\\u{:04x}\"", c);
                    match pocket_types::json::json_unescape(esc.as_bytes(), &mut out) {
                        Ok((i, o)) => {
                            fnv(&mut h, &[1, i as u8, o as u8]);
                            fnv(&mut h, &out[..o]);
                        }
                        Err(_) => fnv(&mut h, &[0]),
                    }
                }
            }
            Ok(format!("{}", h))
        }
        "SGN" => {
            // seckeyhex kind t tags content
            use pocket_types::secp256k1::{Keypair, SecretKey, SECP256K1};
            let sk = SecretKey::from_slice(&unhex(a[0])?).map_err(|e| e.to_string())?;
            let kp = Keypair::from_secret_key(SECP256K1, &sk);
            let kind = Kind::from_u16(a[1].parse::<u16>().map_err(|e| e.to_string())?);
            let t = Time::from_u64(a[2].parse::<u64>().map_err(|e| e.to_string())?);
            let tags = match owned_tags(&parse_tags_token(a[3])?) {
                Ok(t) => t,
                Err(e) => return Ok(format!("tags-{}", e)),
            };
            let content = unhex(a[4])?;
            match OwnedEvent::sign_new(&kp, kind, &tags, t, &content) {
                Ok(e) => {
                    let v = e.verify().is_ok();
                    Ok(format!("ok {} v={}", hex(e.as_bytes()), v as u8))
                }
                Err(_) => Ok("err".into()),
            }
        }
        "VFY" => {
            let b = unhex(a[0])?;
            let e = unsafe { Event::delineate(&b) }.map_err(|_| "edel".to_string())?;
            match e.verify() {
                Ok(()) => Ok("ok".into()),
                Err(_) => Ok("err".into()),
            }
        }
        "HLA" => {
            // state(512 hex chars as text) elem(hex 32 bytes) offset
            let mut h = Hll8::from_hex_string(a[0]).map_err(|_| "state".to_string())?;
            let el = arr32(&unhex(a[1])?)?;
            let off: usize = a[2].parse().map_err(|_| "off".to_string())?;
            match h.add_element(&el, off) {
                Ok(()) => Ok(format!("ok {}", h.to_hex_string())),
                Err(_) => Ok("err".into()),
            }
        }
        "HLM" => {
            let mut h1 = Hll8::from_hex_string(a[0]).map_err(|_| "state".to_string())?;
            let h2 = Hll8::from_hex_string(a[1]).map_err(|_| "state".to_string())?;
            h1 += h2;
            Ok(format!("ok {}", h1.to_hex_string()))
        }
        "HLE" => {
            let h = Hll8::from_hex_string(a[0]).map_err(|_| "state".to_string())?;
            let e = h.estimate_count();
            Ok(format!("ok {}", e))
        }
        "HLB" => {
            // statistical envelope for large cardinalities: n elements generated on the fly (splitmix64, four words per
            // element: uniformly random 32-byte elements, no giant buffer), offset; returns estimate and registers
            let n: usize = a[0].parse().map_err(|_| "n".to_string())?;
            let mut x: u64 = a[1].parse().map_err(|_| "seed".to_string())?;
            let off: usize = a[2].parse().map_err(|_| "off".to_string())?;
            let mut next = move || {
                x = x.wrapping_add(0x9E3779B97F4A7C15);
                let mut z = x;
                z = (z ^ (z >> 30)).wrapping_mul(0xBF58476D1CE4E5B9);
                z = (z ^ (z >> 27)).wrapping_mul(0x94D049BB133111EB);
                z ^ (z >> 31)
            };
            let mut h = Hll8::new();
            let mut el = [0u8; 32];
            for _ in 0..n {
                for w in 0..4 {
                    el[8 * w..8 * w + 8].copy_from_slice(&next().to_le_bytes());
                }
                h.add_element(&el, off).map_err(|_| "add".to_string())?;
            }
            Ok(format!("ok {} {}", h.estimate_count(), h.to_hex_string()))
        }
        "HLS" => {
            // statistical envelope: n random elements from a seeded xorshift, offset; returns estimate
            let n: usize = a[0].parse().map_err(|_| "n".to_string())?;
            let seed: u64 = a[1].parse().map_err(|_| "seed".to_string())?;
            let off: usize = a[2].parse().map_err(|_| "off".to_string())?;
            let mut h = Hll8::new();
            let mut buf = vec![0u8; 32 * n];
            fill(seed, &mut buf);
            for i in 0..n {
                let el: [u8; 32] = buf[32 * i..32 * i + 32].try_into().unwrap();
                h.add_element(&el, off).map_err(|_| "add".to_string())?;
            }
            Ok(format!("ok {} {}", h.estimate_count(), h.to_hex_string()))
        }
        "NEW" => {
            // dir tables(comma or -)
            st.store = None;
            let dir = std::path::PathBuf::from(a[0]);
            let _ = std::fs::remove_dir_all(&dir);
            std::fs::create_dir_all(&dir).map_err(|e| e.to_string())?;
            st.tables = if a.len() > 1 && a[1] != "-" {
                a[1].split(',').map(leak_name).collect()
            } else {
                vec![]
            };
            match Store::new(&dir, st.tables.clone()) {
                Ok(s) => {
                    let end = s.stats().map(|x| x.event_bytes).unwrap_or(0);
                    st.store = Some(s);
                    st.dir = Some(dir);
                    Ok(format!("ok debug={} end={}", cfg!(debug_assertions) as u8, end))
                }
                Err(_) => Ok("err".into()),
            }
        }
        "PRE" => {
            // a store directory that does not hold a store yet but whose event.map already exists, <len> zero bytes long (a file
            // pre-sized by an operator, or left behind by an interrupted creation); the next OPN is its first open
            st.store = None;
            let dir = std::path::PathBuf::from(a[0]);
            let len: u64 = a[1].parse().map_err(|_| "len".to_string())?;
            let _ = std::fs::remove_dir_all(&dir);
            std::fs::create_dir_all(&dir).map_err(|e| e.to_string())?;
            let f = std::fs::File::create(dir.join("event.map")).map_err(|e| e.to_string())?;
            f.set_len(len).map_err(|e| e.to_string())?;
            st.dir = Some(dir);
            st.tables = vec![];
            Ok("ok".into())
        }
        "OPN" => {
            st.store = None;
            let dir = if !a.is_empty() && !a[0].is_empty() {
                let d = std::path::PathBuf::from(a[0]);
                if a.len() > 1 {
                    st.tables = if a[1] != "-" {
                        a[1].split(',').map(leak_name).collect()
                    } else {
                        vec![]
                    };
                }
                st.dir = Some(d.clone());
                d
            } else {
                st.dir.clone().ok_or("nodir")?
            };
            match Store::new(&dir, st.tables.clone()) {
                Ok(s) => {
                    st.store = Some(s);
                    Ok("ok".into())
                }
                Err(_) => Ok("err".into()),
            }
        }
        "CLS" => {
            st.store = None;
            Ok("ok".into())
        }
        "RBD" => {
            let s = st.store.take().ok_or("nostore")?;
            match unsafe { s.rebuild() } {
                Ok(ns) => {
                    st.store = Some(ns);
                    let dir = st.dir.clone().unwrap();
                    let b1 = dir.join("event.map.bak").exists();
                    let b2 = dir.join("lmdb.bak").exists();
                    Ok(format!("ok bak={}{}", b1 as u8, b2 as u8))
                }
                Err(e) => {
                    if std::env::var("WORKER_DEBUG").is_ok() {
                        eprintln!("rebuild error: {}", e);
                    }
                    Ok("err".into())
                }
            }
        }
        "RMD" => {
            st.store = None;
            if let Some(d) = st.dir.take() {
                let _ = std::fs::remove_dir_all(&d);
            }
            Ok("ok".into())
        }
        "FSZ" => {
            // fault injection: run the nested store request with the process's file-size limit (RLIMIT_FSIZE, soft) set to the
            // present length of event.map plus <extra> bytes: growing the map then fails with EFBIG (SIGXFSZ ignored), as on a
            // full disk or under a quota; LMDB's own file is smaller than that and is not affected
            let store = st.store.as_ref().ok_or("nostore")?;
            let d = st.dir.clone().ok_or("nodir")?;
            let extra: u64 = a[0].parse().map_err(|_| "extra".to_string())?;
            let len = std::fs::metadata(d.join("event.map")).map_err(|e| e.to_string())?.len();
            let mut old = libc::rlimit { rlim_cur: 0, rlim_max: 0 };
            unsafe {
                libc::signal(libc::SIGXFSZ, libc::SIG_IGN);
                libc::getrlimit(libc::RLIMIT_FSIZE, &mut old);
                let lim = libc::rlimit { rlim_cur: len + extra, rlim_max: old.rlim_max };
                libc::setrlimit(libc::RLIMIT_FSIZE, &lim);
            }
            let r = store_req(store, a[1], &a[2..]);
            unsafe {
                libc::setrlimit(libc::RLIMIT_FSIZE, &old);
            }
            let lmdb = std::fs::metadata(d.join("lmdb").join("data.mdb")).map(|m| m.len()).unwrap_or(0);
            r.map(|x| format!("limit={} lmdb={} {}", len + extra, lmdb, x))
        }
        "KIL" | "TRC" | "CON" | "STRESS" | "MLN" => conc::handle(st, cmd, &a),
        _ => {
            let store = st.store.as_ref().ok_or("nostore")?;
            store_req(store, cmd, &a)
        }
    }
}

fn raw_utf8(c: u32) -> Vec<u8> {
    // the generalized (unchecked) UTF-8 encoding, also for surrogates and values > 0x10FFFF
    if c < 0x80 {
        vec![c as u8]
    } else if c < 0x800 {
        vec![0xC0 | (c >> 6) as u8, 0x80 | (c & 0x3F) as u8]
    } else if c < 0x10000 {
        vec![
            0xE0 | (c >> 12) as u8,
            0x80 | ((c >> 6) & 0x3F) as u8,
            0x80 | (c & 0x3F) as u8,
        ]
    } else {
        vec![
            0xF0 | ((c >> 18) & 7) as u8,
            0x80 | ((c >> 12) & 0x3F) as u8,
            0x80 | ((c >> 6) & 0x3F) as u8,
            0x80 | (c & 0x3F) as u8,
        ]
    }
}

fn main() {
    std::panic::set_hook(Box::new(|_| {}));
    let stdin = std::io::stdin();
    let stdout = std::io::stdout();
    let mut out = std::io::BufWriter::new(stdout.lock());
    let mut st = St { store: None, dir: None, tables: vec![] };
    for line in stdin.lock().lines() {
        let line = match line {
            Ok(l) => l,
            Err(_) => break,
        };
        let line = line.trim_end();
        if line.is_empty() || line.starts_with('#') {
            let _ = writeln!(out, "#");
            let _ = out.flush();
            continue;
        }
        let r = catch_unwind(AssertUnwindSafe(|| handle(&mut st, line)));
        let reply = match r {
            Ok(Ok(s)) => s,
            Ok(Err(e)) => format!("bad-request {}", e),
            Err(p) => {
                let msg = if let Some(s) = p.downcast_ref::<&str>() {
                    s.to_string()
                } else if let Some(s) = p.downcast_ref::<String>() {
                    s.clone()
                } else {
                    "?".to_string()
                };
                format!("panic {}", msg.replace(['\n', ' '], "_"))
            }
        };
        let _ = writeln!(out, "{}", reply);
        let _ = out.flush();
    }
}
